// Package world implements every dependency the built-in functions are given (accounts, data
// trie, accounts adapter, shard coordinator, marshaller, payability oracle, epoch notifier) so
// that the whole observable world state is in the harness's hands: it can be cloned, diffed,
// digested, and every dependency call passes through one choke point (count, fault, delay, log).
package world

import (
	"bytes"
	"errors"
	"fmt"
	"hash/fnv"
	"io"
	"math/big"
	"os"
	"sort"
	"sync"
	"sync/atomic"

	vmcommon "github.com/ElrondNetwork/elrond-vm-common"
	"github.com/ElrondNetwork/elrond-vm-common/builtInFunctions"
)

// Dependency-call kinds.
const (
	KRetrieve    = "RetrieveValue"
	KSaveKV      = "SaveKeyValue"
	KLoad        = "LoadAccount"
	KLoadSys     = "LoadAccount(system)"
	KSaveAcc     = "SaveAccount"
	KMarshal     = "Marshal"
	KUnmarshal   = "Unmarshal"
	KIsPayable   = "IsPayable"
	KAddBalance  = "AddToBalance"
	KChangeOwner = "ChangeOwnerAddress"
	KClaim       = "ClaimDeveloperRewards"
)

var ErrInjected = errors.New("verif: injected dependency failure")

type DepCall struct {
	Kind string
	Addr string
	Key  string
}

// FaultPlan fails the FailAt-th (1-based) call among the injectable kinds.
type FaultPlan struct {
	FailAt     int
	FailAt2    int // optional second fault
	N          int
	Fired      []DepCall
	Injectable func(kind string) bool
	// Match, when set, decides per call (kind and storage key) instead of Injectable.
	Match func(kind string, key []byte) bool
	// Err is what the failing call returns (ErrInjected when nil).
	Err error
}

// FaultErrors: the values a failing dependency may legitimately return - the library must treat
// every one of them as a failure, whatever it is or wraps (end-of-input errors of decoders,
// not-found errors of stores, an error with an empty message).
var FaultErrors = []error{ErrInjected, io.EOF, io.ErrUnexpectedEOF, fmt.Errorf("decode: %w", io.ErrUnexpectedEOF), os.ErrNotExist, errors.New("not found"), errors.New(""), fmt.Errorf("trie: %w", os.ErrNotExist)}

// Payability answers.
const (
	PayDefault = iota
	PayYes
	PayNo
	PayErr
)

type World struct {
	NumShards uint32
	Shards    []*Shard

	// per-leg instrumentation (single-threaded mode only)
	Concurrent bool
	Log        []DepCall
	Logging    bool
	Fault      *FaultPlan
	Delay      func(kind string)
	CurFunc    string // name of the function being executed (to classify the pause lookup)

	Payable map[string]int // per address override
	DNS     map[string]struct{}
	Cfg     Config

	TimestampOf func(e uint32, n int) uint64

	// CopyOnLoad: LoadAccount returns a fresh copy of the persisted account on every call and only
	// SaveAccount persists it (what the node's accounts database does); otherwise it returns the live
	// object and modifications that were not followed by SaveAccount are discarded at the end of the
	// call. Accounts the node itself hands to the call are live in both modes. Worlds 4-6 of every
	// six of a process.
	CopyOnLoad bool

	// AliasStorage: the data trie keeps the very slice it is given by SaveKeyValue and hands out the
	// very slice it holds from RetrieveValue (what the node's trackable data trie does with its
	// dirty entries) instead of copying both ways. Every third world of a process.
	AliasStorage bool

	// MergeDecode: the marshaller decodes INTO the object it is given without clearing it first
	// (protobuf merge semantics, also what the JSON marshaller of the node and of the repository's
	// own mock does). Both behaviours implement the Marshalizer interface; every third world of a
	// process uses this one, so code that starts to reuse a decode target is observable.
	MergeDecode bool

	// configuration history, replayed by Clone so that a clone is "equal configuration"
	SchedHist [](map[string]map[string]uint64)
	EpochHist []uint32
}

type Config struct {
	NumShards       uint32
	GasMap          map[string]map[string]uint64
	ActivationEpoch uint32
	EnableNameChg   bool
	DNS             [][]byte
	ConfirmEpoch    *uint32 // epoch confirmed right after construction (nil = none)
	MetaSelf        bool    // shard 0's coordinator reports SelfId() == MetachainShardId (a metachain node)
	// NotifyOnRegister: the epoch notifier calls EpochConfirmed(current epoch) synchronously when a
	// handler registers, as the node's generic epoch notifier does (nil = it only records).
	NotifyOnRegister *uint32
	// PreCreate: schedule changes the factory receives after its construction and BEFORE it creates
	// the container (a gas-schedule notifier that replays the latest schedule on registration).
	PreCreate []map[string]map[string]uint64
	// CodecWrap lets a check interpose on the marshaller (fault injection uses the choke point instead).
}

type Shard struct {
	W         *World
	ID        uint32
	mu        sync.Mutex
	Accounts  map[string]*Account
	Container vmcommon.BuiltInFunctionContainer
	Factory   interface {
		GasScheduleChange(map[string]map[string]uint64)
		CreateBuiltInFunctionContainer() (vmcommon.BuiltInFunctionContainer, error)
	}
	Subs []vmcommon.EpochSubscriberHandler

	// per-leg tracking of accounts the library loaded itself
	loaded map[string]*loadTrack
	// copy-on-load mode: the accounts the node handed over for this leg, and copy -> live object
	owned  []*Account
	copies map[*Account]*Account
}

type loadTrack struct {
	acc       *Account
	modAtLoad int
	savedMod  int      // modSeq at the last SaveAccount (-1 never)
	savedCopy *Account // state at the last SaveAccount
}

type Account struct {
	sh        *Shard
	mu        sync.Mutex
	cleared   map[string]bool // keys that were written and then cleared (see RetrieveValue)
	Addr      []byte
	Storage   map[string][]byte
	Balance   *big.Int
	Owner     []byte
	UserName  []byte
	DevReward *big.Int
	CodeMeta  []byte
	Nonce     uint64
	modSeq    int
}

// ---------------------------------------------------------------------------------------------
// Gas maps

var BaseFields = []string{"StorePerByte", "ReleasePerByte", "DataCopyPerByte", "PersistPerByte", "CompilePerByte", "AoTPreparePerByte"}
var BuiltInFields = []string{"ChangeOwnerAddress", "ClaimDeveloperRewards", "SaveUserName", "SaveKeyValue", "ESDTTransfer", "ESDTBurn",
	"ESDTLocalMint", "ESDTLocalBurn", "ESDTNFTCreate", "ESDTNFTAddQuantity", "ESDTNFTBurn", "ESDTNFTTransfer",
	"ESDTNFTChangeCreateOwner", "ESDTNFTMultiTransfer", "ESDTNFTAddURI", "ESDTNFTUpdateAttributes"}

// GasMapFrom builds a schedule from a function giving each field's value.
func GasMapFrom(f func(section, field string, idx int) uint64) map[string]map[string]uint64 {
	m := map[string]map[string]uint64{vmcommon.BaseOperationCostString: {}, vmcommon.BuiltInCostString: {}}
	for i, n := range BaseFields {
		m[vmcommon.BaseOperationCostString][n] = f(vmcommon.BaseOperationCostString, n, i)
	}
	for i, n := range BuiltInFields {
		m[vmcommon.BuiltInCostString][n] = f(vmcommon.BuiltInCostString, n, len(BaseFields)+i)
	}
	return m
}

var primes = []uint64{101, 103, 107, 109, 113, 127, 131, 137, 139, 149, 151, 157, 163, 167, 173, 179, 181, 191, 193, 197, 199, 211, 223, 227}

// DefaultGasMap: pairwise distinct small primes.
func DefaultGasMap() map[string]map[string]uint64 {
	return GasMapFrom(func(_, _ string, i int) uint64 { return primes[i] })
}

func CloneGasMap(m map[string]map[string]uint64) map[string]map[string]uint64 {
	c := map[string]map[string]uint64{}
	for s, mm := range m {
		c[s] = map[string]uint64{}
		for k, v := range mm {
			c[s][k] = v
		}
	}
	return c
}

// ---------------------------------------------------------------------------------------------
// Construction

var worldSeq uint64

func New(cfg Config) (*World, error) {
	if cfg.NumShards == 0 {
		cfg.NumShards = 1
	}
	if cfg.GasMap == nil {
		cfg.GasMap = DefaultGasMap()
	}
	w := &World{NumShards: cfg.NumShards, Payable: map[string]int{}, DNS: map[string]struct{}{}, Cfg: cfg}
	seq := atomic.AddUint64(&worldSeq, 1)
	w.MergeDecode = seq%3 == 0
	w.AliasStorage = seq%3 == 1
	w.CopyOnLoad = (seq/3)%2 == 1
	for _, d := range cfg.DNS {
		w.DNS[string(d)] = struct{}{}
	}
	for i := uint32(0); i < cfg.NumShards; i++ {
		sh := &Shard{W: w, ID: i, Accounts: map[string]*Account{}}
		w.Shards = append(w.Shards, sh)
		if err := sh.build(); err != nil {
			return nil, err
		}
	}
	if cfg.ConfirmEpoch != nil {
		w.ConfirmEpoch(*cfg.ConfirmEpoch)
	}
	return w, nil
}

func (sh *Shard) build() error {
	w := sh.W
	dns := map[string]struct{}{}
	for k := range w.DNS {
		dns[k] = struct{}{}
	}
	sh.Subs = nil
	f, err := builtInFunctions.NewBuiltInFunctionsFactory(builtInFunctions.ArgsCreateBuiltInFunctionContainer{
		GasMap:                              CloneGasMap(w.Cfg.GasMap),
		MapDNSAddresses:                     dns,
		EnableUserNameChange:                w.Cfg.EnableNameChg,
		Marshalizer:                         &Codec{w: w},
		Accounts:                            &Adapter{sh: sh},
		ShardCoordinator:                    &Coord{w: w, self: sh.ID},
		EpochNotifier:                       &Notifier{sh: sh},
		ESDTNFTImprovementV1ActivationEpoch: w.Cfg.ActivationEpoch,
	})
	if err != nil {
		return err
	}
	for _, m := range w.Cfg.PreCreate {
		f.GasScheduleChange(CloneGasMap(m))
	}
	c, err := f.CreateBuiltInFunctionContainer()
	if err != nil {
		return err
	}
	if err = builtInFunctions.SetPayableHandler(c, &PayableOracle{W: w}); err != nil {
		return err
	}
	sh.Container = c
	sh.Factory = f
	// the embedding code goes on using its own map: an address it adds AFTER construction was never
	// configured as a DNS address
	dns[string(LateDNS)] = struct{}{}
	return nil
}

// LateDNS is put into the caller's DNS map after the factory has been constructed.
var LateDNS = append(bytes.Repeat([]byte{0x4c}, 31), 0)

// ConfirmEpoch delivers an epoch notification to every subscriber of every shard.
func (w *World) ConfirmEpoch(e uint32) {
	w.EpochHist = append(w.EpochHist, e)
	ts := w.timestamp(e)
	for _, sh := range w.Shards {
		for _, s := range sh.Subs {
			s.EpochConfirmed(e, ts)
		}
	}
}

// timestamp: what the notifier passes along with an epoch. By default the epoch's start time (so a
// regression to an earlier epoch carries an earlier timestamp); TimestampOf overrides it (n = how
// many notifications were delivered before).
func (w *World) timestamp(e uint32) uint64 {
	if w.TimestampOf != nil {
		return w.TimestampOf(e, len(w.EpochHist)-1)
	}
	return 1600000000 + uint64(e)*14400
}

// GasScheduleChange applies a schedule through the real factory on every shard.
func (w *World) GasScheduleChange(m map[string]map[string]uint64) {
	w.SchedHist = append(w.SchedHist, CloneGasMap(m))
	for _, sh := range w.Shards {
		sh.Factory.GasScheduleChange(CloneGasMap(m))
	}
}

// ---------------------------------------------------------------------------------------------
// The choke point

func (w *World) dep(kind string, addr, key []byte) error {
	if w.Concurrent {
		if w.Delay != nil {
			w.Delay(kind)
		}
		return nil
	}
	if w.Logging {
		w.Log = append(w.Log, DepCall{Kind: kind, Addr: string(addr), Key: string(key)})
	}
	if fp := w.Fault; fp != nil && ((fp.Match != nil && fp.Match(kind, key)) || (fp.Match == nil && (fp.Injectable == nil || fp.Injectable(kind)))) {
		fp.N++
		if fp.N == fp.FailAt || fp.N == fp.FailAt2 {
			fp.Fired = append(fp.Fired, DepCall{Kind: kind, Addr: string(addr), Key: string(key)})
			if fp.Err != nil {
				return fp.Err
			}
			return ErrInjected
		}
	}
	return nil
}

// ---------------------------------------------------------------------------------------------
// Coordinator (the node's multi-shard coordinator algorithm)

type Coord struct {
	w    *World
	self uint32
}

func shardMasks(n uint32) (uint32, uint32) {
	// n = number of shards; maskHigh = 2^ceil(log2 n) - 1, maskLow = 2^floor(log2 n) - 1
	hi := uint32(1)
	for hi < n {
		hi <<= 1
	}
	lo := hi
	if hi > n {
		lo = hi >> 1
	}
	return hi - 1, lo - 1
}

func ComputeShard(n uint32, address []byte) uint32 {
	if len(address) == 0 {
		return 0
	}
	last := address[len(address)-1:]
	if vmcommon.IsSmartContractOnMetachain(last, address) {
		return vmcommon.MetachainShardId
	}
	hi, lo := shardMasks(n)
	a := uint32(last[0])
	s := a & hi
	if s > n-1 {
		s = a & lo
	}
	return s
}

func (c *Coord) NumberOfShards() uint32          { return c.w.NumShards }
func (c *Coord) ComputeId(address []byte) uint32 { return ComputeShard(c.w.NumShards, address) }
func (c *Coord) SelfId() uint32 {
	if c.w.Cfg.MetaSelf && c.self == 0 {
		return vmcommon.MetachainShardId
	}
	return c.self
}
func (c *Coord) SameShard(a, b []byte) bool {
	return ComputeShard(c.w.NumShards, a) == ComputeShard(c.w.NumShards, b)
}
func (c *Coord) CommunicationIdentifier(dest uint32) string {
	return fmt.Sprintf("%d_%d", c.self, dest)
}
func (c *Coord) IsInterfaceNil() bool { return c == nil }

// ---------------------------------------------------------------------------------------------
// Marshaller: the production wire codec, driven the way the node's GogoProtoMarshalizer drives it.

type gogoObj interface {
	Marshal() ([]byte, error)
	Unmarshal([]byte) error
	Reset()
}

type Codec struct{ w *World }

var ErrNotProto = errors.New("verif: not a proto object")

func (c *Codec) Marshal(obj interface{}) ([]byte, error) {
	if err := c.w.dep(KMarshal, nil, nil); err != nil {
		return nil, err
	}
	m, ok := obj.(gogoObj)
	if !ok {
		return nil, ErrNotProto
	}
	return m.Marshal()
}

func (c *Codec) Unmarshal(obj interface{}, buff []byte) error {
	if err := c.w.dep(KUnmarshal, nil, nil); err != nil {
		return err
	}
	m, ok := obj.(gogoObj)
	if !ok {
		return ErrNotProto
	}
	if !c.w.MergeDecode {
		m.Reset()
	}
	return m.Unmarshal(buff)
}
func (c *Codec) IsInterfaceNil() bool { return c == nil }

// PlainCodec is the same codec without a world (parsers, C14).
type PlainCodec struct{}

func (PlainCodec) Marshal(obj interface{}) ([]byte, error) {
	m, ok := obj.(gogoObj)
	if !ok {
		return nil, ErrNotProto
	}
	return m.Marshal()
}
func (PlainCodec) Unmarshal(obj interface{}, buff []byte) error {
	m, ok := obj.(gogoObj)
	if !ok {
		return ErrNotProto
	}
	m.Reset()
	return m.Unmarshal(buff)
}
func (PlainCodec) IsInterfaceNil() bool { return false }

// ---------------------------------------------------------------------------------------------
// Payability oracle

type PayableOracle struct{ W *World }

var ErrPayableOracle = errors.New("verif: payability oracle error")

// Answer is the oracle's answer for an address: PayYes / PayNo / PayErr.
func (w *World) PayAnswer(addr []byte) int {
	if v, ok := w.Payable[string(addr)]; ok && v != PayDefault {
		return v
	}
	if !vmcommon.IsSmartContractAddress(addr) {
		return PayYes
	}
	// contracts: by code metadata of the account (wherever it lives)
	sid := ComputeShard(w.NumShards, addr)
	if sid < w.NumShards {
		sh := w.Shards[sid]
		sh.mu.Lock()
		a := sh.Accounts[string(addr)]
		sh.mu.Unlock()
		if a != nil && vmcommon.CodeMetadataFromBytes(a.CodeMeta).Payable {
			return PayYes
		}
	}
	return PayNo
}

func (p *PayableOracle) IsPayable(address []byte) (bool, error) {
	// when the query fails the boolean carries no meaning; the oracle returns true with the error
	// (a caller that looks at the answer before the error is wrong)
	if err := p.W.dep(KIsPayable, address, nil); err != nil {
		return true, err
	}
	switch p.W.PayAnswer(address) {
	case PayYes:
		return true, nil
	case PayNo:
		return false, nil
	default:
		return true, ErrPayableOracle
	}
}
func (p *PayableOracle) IsInterfaceNil() bool { return p == nil }

// ---------------------------------------------------------------------------------------------
// Epoch notifier

type Notifier struct{ sh *Shard }

func (n *Notifier) RegisterNotifyHandler(h vmcommon.EpochSubscriberHandler) {
	n.sh.Subs = append(n.sh.Subs, h)
	if e := n.sh.W.Cfg.NotifyOnRegister; e != nil {
		h.EpochConfirmed(*e, n.sh.W.timestamp(*e))
	}
}
func (n *Notifier) IsInterfaceNil() bool { return n == nil }

// ---------------------------------------------------------------------------------------------
// Accounts adapter

type Adapter struct{ sh *Shard }

func (a *Adapter) GetExistingAccount(address []byte) (vmcommon.AccountHandler, error) {
	a.sh.mu.Lock()
	acc := a.sh.Accounts[string(address)]
	a.sh.mu.Unlock()
	if acc == nil {
		return nil, errors.New("account not found")
	}
	return acc, nil
}

func (a *Adapter) LoadAccount(address []byte) (vmcommon.AccountHandler, error) {
	kind := KLoad
	if bytes.Equal(address, vmcommon.SystemAccountAddress) {
		kind = KLoadSys
	}
	if err := a.sh.W.dep(kind, address, nil); err != nil {
		return nil, err
	}
	acc := a.sh.Get(address)
	if a.sh.W.CopyOnLoad && !a.sh.W.Concurrent && a.sh.loaded != nil {
		// (also for an address the node handed to the call: the library gets a second, independent
		// object for it, as from the node's accounts database)
		c := acc.clone(a.sh)
		a.sh.copies[c] = acc
		return c, nil
	}
	if !a.sh.W.Concurrent && a.sh.loaded != nil {
		if _, ok := a.sh.loaded[string(address)]; !ok {
			a.sh.loaded[string(address)] = &loadTrack{acc: acc, modAtLoad: acc.modSeq, savedMod: -1}
		}
	}
	return acc, nil
}

func (a *Adapter) SaveAccount(account vmcommon.AccountHandler) error {
	var addr []byte
	if account != nil && !account.IsInterfaceNil() {
		addr = account.AddressBytes()
	}
	if err := a.sh.W.dep(KSaveAcc, addr, nil); err != nil {
		return err
	}
	if a.sh.W.CopyOnLoad && !a.sh.W.Concurrent && a.sh.loaded != nil {
		if c, ok := account.(*Account); ok {
			// whatever object is handed over is persisted under its address (a copy the library kept
			// from an earlier call included); saving the live object itself changes nothing
			if live := a.sh.Get(c.Addr); live != c {
				live.restoreFrom(c)
				live.modSeq++
			}
		}
		return nil
	}
	if !a.sh.W.Concurrent && a.sh.loaded != nil {
		if lt, ok := a.sh.loaded[string(addr)]; ok {
			lt.savedMod = lt.acc.modSeq
			lt.savedCopy = lt.acc.clone(a.sh)
		}
	}
	return nil
}
func (a *Adapter) RemoveAccount(address []byte) error  { return nil }
func (a *Adapter) Commit() ([]byte, error)             { return nil, nil }
func (a *Adapter) JournalLen() int                     { return 0 }
func (a *Adapter) RevertToSnapshot(snapshot int) error { return nil }
func (a *Adapter) GetNumCheckpoints() uint32           { return 0 }
func (a *Adapter) GetCode(codeHash []byte) []byte      { return nil }
func (a *Adapter) RootHash() ([]byte, error)           { return nil, nil }
func (a *Adapter) RecreateTrie(rootHash []byte) error  { return nil }
func (a *Adapter) IsInterfaceNil() bool                { return a == nil }

// Get returns the live account object, creating it if missing (node behaviour).
func (sh *Shard) Get(address []byte) *Account {
	sh.mu.Lock()
	defer sh.mu.Unlock()
	acc := sh.Accounts[string(address)]
	if acc == nil {
		acc = &Account{sh: sh, Addr: append([]byte{}, address...), Storage: map[string][]byte{}, Balance: new(big.Int), DevReward: new(big.Int)}
		// what an account is besides its token storage - its transaction nonce and its native
		// balance - is none of the token functions' business; accounts differ in both (a function
		// of the address, see ambient)
		acc.Nonce, acc.Balance = ambient(address)
		sh.Accounts[string(address)] = acc
	}
	return acc
}

// BeginLeg starts tracking of library-loaded accounts.
func (sh *Shard) BeginLeg(owned ...*Account) {
	sh.loaded = map[string]*loadTrack{}
	sh.owned = owned
	sh.copies = map[*Account]*Account{}
}

// EndLeg discards modifications to accounts the library loaded itself but did not save
// (driverOwned are the accounts the node passed in and saves itself). It returns the addresses
// whose modifications were discarded.
func (sh *Shard) EndLeg(driverOwned ...*Account) []string {
	var discarded []string
	sh.owned, sh.copies = nil, nil // copy-on-load: a copy that was not saved is simply dropped
	for addr, lt := range sh.loaded {
		owned := false
		for _, d := range driverOwned {
			if d == lt.acc {
				owned = true
			}
		}
		if owned {
			continue
		}
		if lt.acc.modSeq != lt.modAtLoad && lt.acc.modSeq != lt.savedMod {
			// modified after the last save (or never saved)
			if lt.savedCopy != nil {
				lt.acc.restoreFrom(lt.savedCopy)
			} else {
				discarded = append(discarded, addr)
				// restore to the state at load time is done by the caller from its pre-clone
			}
		}
	}
	sh.loaded = nil
	return discarded
}

// ---------------------------------------------------------------------------------------------
// Account (UserAccountHandler + AccountDataHandler)

func (a *Account) GetCodeMetadata() []byte { return a.CodeMeta }
func (a *Account) GetCodeHash() []byte     { return nil }
func (a *Account) GetRootHash() []byte     { return nil }
func (a *Account) AccountDataHandler() vmcommon.AccountDataHandler {
	return a
}
func (a *Account) AddToBalance(value *big.Int) error {
	if err := a.sh.W.dep(KAddBalance, a.Addr, nil); err != nil {
		return err
	}
	a.mu.Lock()
	defer a.mu.Unlock()
	nb := new(big.Int).Add(a.Balance, value)
	if nb.Sign() < 0 {
		return errors.New("insufficient funds")
	}
	a.Balance = nb
	a.modSeq++
	return nil
}
func (a *Account) GetBalance() *big.Int { return new(big.Int).Set(a.Balance) }
func (a *Account) ClaimDeveloperRewards(_ []byte) (*big.Int, error) {
	if err := a.sh.W.dep(KClaim, a.Addr, nil); err != nil {
		return nil, err
	}
	a.mu.Lock()
	defer a.mu.Unlock()
	v := a.DevReward
	a.DevReward = new(big.Int)
	a.modSeq++
	return new(big.Int).Set(v), nil
}
func (a *Account) GetDeveloperReward() *big.Int { return new(big.Int).Set(a.DevReward) }
func (a *Account) ChangeOwnerAddress(_ []byte, newOwner []byte) error {
	if err := a.sh.W.dep(KChangeOwner, a.Addr, nil); err != nil {
		return err
	}
	a.mu.Lock()
	a.Owner = append([]byte{}, newOwner...)
	a.modSeq++
	a.mu.Unlock()
	return nil
}
func (a *Account) SetOwnerAddress(o []byte) { a.Owner = append([]byte{}, o...); a.modSeq++ }
func (a *Account) GetOwnerAddress() []byte  { return a.Owner }
func (a *Account) SetUserName(n []byte) {
	a.mu.Lock()
	a.UserName = append([]byte{}, n...)
	a.modSeq++
	a.mu.Unlock()
}
func (a *Account) GetUserName() []byte    { return a.UserName }
func (a *Account) AddressBytes() []byte   { return a.Addr }
func (a *Account) IncreaseNonce(n uint64) { a.Nonce += n; a.modSeq++ }
func (a *Account) GetNonce() uint64       { return a.Nonce }
func (a *Account) IsInterfaceNil() bool   { return a == nil }

func (a *Account) RetrieveValue(key []byte) ([]byte, error) {
	if err := a.sh.W.dep(KRetrieve, a.Addr, key); err != nil {
		return nil, err
	}
	a.mu.Lock()
	v, ok := a.Storage[string(key)]
	tomb := a.cleared[string(key)]
	a.mu.Unlock()
	if !ok {
		if tomb && a.sh.W.AliasStorage {
			// a key that was written and cleared reads back as an empty, non-nil value here
			return []byte{}, nil
		}
		return nil, nil
	}
	if a.sh.W.AliasStorage {
		return v, nil
	}
	c := make([]byte, len(v))
	copy(c, v)
	return c, nil
}

func (a *Account) SaveKeyValue(key []byte, value []byte) error {
	if err := a.sh.W.dep(KSaveKV, a.Addr, key); err != nil {
		return err
	}
	a.mu.Lock()
	defer a.mu.Unlock()
	a.modSeq++
	if len(value) == 0 {
		if _, had := a.Storage[string(key)]; had {
			if a.cleared == nil {
				a.cleared = map[string]bool{}
			}
			a.cleared[string(key)] = true
		}
		delete(a.Storage, string(key))
		return nil
	}
	if a.sh.W.AliasStorage {
		a.Storage[string(key)] = value
		return nil
	}
	c := make([]byte, len(value))
	copy(c, value)
	a.Storage[string(key)] = c
	return nil
}

// Raw accessors for the harness (no choke point).
func (a *Account) Peek(key []byte) []byte { return a.Storage[string(key)] }
func (a *Account) Poke(key, value []byte) {
	if len(value) == 0 {
		delete(a.Storage, string(key))
		return
	}
	a.Storage[string(key)] = append([]byte{}, value...)
}
func (a *Account) ShardID() uint32 { return a.sh.ID }

func (a *Account) clone(sh *Shard) *Account {
	c := &Account{sh: sh, Addr: a.Addr, Storage: make(map[string][]byte, len(a.Storage)), Balance: new(big.Int).Set(a.Balance),
		Owner: a.Owner, UserName: a.UserName, DevReward: new(big.Int).Set(a.DevReward), CodeMeta: a.CodeMeta, Nonce: a.Nonce, modSeq: a.modSeq}
	if len(a.cleared) > 0 {
		c.cleared = make(map[string]bool, len(a.cleared))
		for k := range a.cleared {
			c.cleared[k] = true
		}
	}
	for k, v := range a.Storage {
		if a.sh != nil && a.sh.W.AliasStorage {
			c.Storage[k] = append([]byte{}, v...) // the library holds references into live values
		} else {
			c.Storage[k] = v // values are never mutated in place (copied on write and on read)
		}
	}
	return c
}

func (a *Account) restoreFrom(c *Account) {
	a.cleared = nil
	if len(c.cleared) > 0 {
		a.cleared = make(map[string]bool, len(c.cleared))
		for k := range c.cleared {
			a.cleared[k] = true
		}
	}
	a.Storage = make(map[string][]byte, len(c.Storage))
	for k, v := range c.Storage {
		if a.sh != nil && a.sh.W.AliasStorage {
			a.Storage[k] = append([]byte{}, v...)
		} else {
			a.Storage[k] = v
		}
	}
	a.Balance = new(big.Int).Set(c.Balance)
	a.Owner, a.UserName, a.CodeMeta, a.Nonce = c.Owner, c.UserName, c.CodeMeta, c.Nonce
	a.DevReward = new(big.Int).Set(c.DevReward)
}

// isEmpty: the account is what LoadAccount would create for its address (so that even a pause
// LOOKUP, which materialises an empty system account, leaves the canonical state unchanged).
func (a *Account) isEmpty() bool {
	n, b := ambient(a.Addr)
	return len(a.Storage) == 0 && a.Balance.Cmp(b) == 0 && len(a.Owner) == 0 && len(a.UserName) == 0 && a.DevReward.Sign() == 0 && len(a.CodeMeta) == 0 && a.Nonce == n
}

// ambient: the transaction nonce and native balance an account has when it first appears - a
// function of the address, so that clones, replays and roll-backs agree. System addresses (ff..,
// metachain contracts) start at zero.
func ambient(address []byte) (uint64, *big.Int) {
	if len(address) != 32 || address[0] == 0xff || (address[30] == 0xff && address[31] == 0xff) {
		return 0, new(big.Int)
	}
	h := fnv.New32a()
	h.Write(address)
	v := h.Sum32()
	return []uint64{0, 1, 77, 1 << 32, ^uint64(0)}[v%5], []*big.Int{new(big.Int), big.NewInt(1), new(big.Int).Exp(big.NewInt(10), big.NewInt(18), nil), new(big.Int).Lsh(big.NewInt(1), 70)}[(v/5)%4]
}

// ---------------------------------------------------------------------------------------------
// Snapshots, diffs, digests

// Snapshot is a deep copy of all account state (not of containers).
type Snapshot struct {
	Shards []map[string]*Account
}

func (w *World) Snapshot() *Snapshot {
	s := &Snapshot{}
	for _, sh := range w.Shards {
		m := make(map[string]*Account, len(sh.Accounts))
		for k, a := range sh.Accounts {
			m[k] = a.clone(sh)
		}
		s.Shards = append(s.Shards, m)
	}
	return s
}

// Restore puts the account state back (live objects are kept where they exist).
func (w *World) Restore(s *Snapshot) {
	for i, sh := range w.Shards {
		for k, a := range sh.Accounts {
			if c, ok := s.Shards[i][k]; ok {
				a.restoreFrom(c)
			} else {
				delete(sh.Accounts, k)
			}
		}
		for k, c := range s.Shards[i] {
			if _, ok := sh.Accounts[k]; !ok {
				sh.Accounts[k] = c.clone(sh)
			}
		}
	}
}

// RestoreAccount restores a single account of a shard from the snapshot.
func (w *World) RestoreAccount(s *Snapshot, shard uint32, addr string) {
	sh := w.Shards[shard]
	if c, ok := s.Shards[shard][addr]; ok {
		if a, ok2 := sh.Accounts[addr]; ok2 {
			a.restoreFrom(c)
		}
	} else {
		delete(sh.Accounts, addr)
	}
}

// Change is one difference between two states.
type Change struct {
	Shard uint32
	Addr  string
	Field string // "storage" | "balance" | "owner" | "username" | "devreward" | "codemeta" | "nonce"
	Key   string // storage key when Field == "storage"
	Old   []byte
	New   []byte
}

func fieldBytes(a *Account, f string) []byte {
	if a == nil {
		return nil
	}
	switch f {
	case "balance":
		if a.Balance.Sign() == 0 {
			return nil
		}
		return []byte(a.Balance.String())
	case "owner":
		return a.Owner
	case "username":
		return a.UserName
	case "devreward":
		if a.DevReward.Sign() == 0 {
			return nil
		}
		return []byte(a.DevReward.String())
	case "codemeta":
		return a.CodeMeta
	case "nonce":
		if a.Nonce == 0 {
			return nil
		}
		return []byte(fmt.Sprint(a.Nonce))
	}
	return nil
}

var scalarFields = []string{"balance", "owner", "username", "devreward", "codemeta", "nonce"}

// Diff lists the differences between a snapshot (before) and the live world (after).
func (w *World) Diff(before *Snapshot) []Change {
	var out []Change
	for i, sh := range w.Shards {
		seen := map[string]bool{}
		for addr, a := range sh.Accounts {
			seen[addr] = true
			out = diffAccount(out, uint32(i), addr, before.Shards[i][addr], a)
		}
		for addr, b := range before.Shards[i] {
			if !seen[addr] {
				out = diffAccount(out, uint32(i), addr, b, nil)
			}
		}
	}
	sort.Slice(out, func(i, j int) bool {
		a, b := out[i], out[j]
		if a.Shard != b.Shard {
			return a.Shard < b.Shard
		}
		if a.Addr != b.Addr {
			return a.Addr < b.Addr
		}
		if a.Field != b.Field {
			return a.Field < b.Field
		}
		return a.Key < b.Key
	})
	return out
}

func diffAccount(out []Change, shard uint32, addr string, b, a *Account) []Change {
	// an account that is not there (yet / any more) counts as the one LoadAccount would create
	if b == nil || a == nil {
		n, bal := ambient([]byte(addr))
		d := &Account{Addr: []byte(addr), Storage: map[string][]byte{}, Balance: bal, DevReward: new(big.Int), Nonce: n}
		if b == nil {
			b = d
		}
		if a == nil {
			a = d
		}
	}
	var bs, as map[string][]byte
	if b != nil {
		bs = b.Storage
	}
	if a != nil {
		as = a.Storage
	}
	for k, nv := range as {
		if ov, ok := bs[k]; !ok || !bytes.Equal(ov, nv) {
			out = append(out, Change{Shard: shard, Addr: addr, Field: "storage", Key: k, Old: bs[k], New: nv})
		}
	}
	for k, ov := range bs {
		if _, ok := as[k]; !ok {
			out = append(out, Change{Shard: shard, Addr: addr, Field: "storage", Key: k, Old: ov, New: nil})
		}
	}
	for _, f := range scalarFields {
		o, n := fieldBytes(b, f), fieldBytes(a, f)
		if !bytes.Equal(o, n) {
			out = append(out, Change{Shard: shard, Addr: addr, Field: f, Old: o, New: n})
		}
	}
	return out
}

// Canonical is a sorted, length-prefixed serialisation of every non-empty account.
func (w *World) Canonical() []byte {
	var buf bytes.Buffer
	put := func(b []byte) {
		fmt.Fprintf(&buf, "%d:", len(b))
		buf.Write(b)
	}
	for i, sh := range w.Shards {
		fmt.Fprintf(&buf, "S%d{", i)
		addrs := make([]string, 0, len(sh.Accounts))
		for k, a := range sh.Accounts {
			if !a.isEmpty() {
				addrs = append(addrs, k)
			}
		}
		sort.Strings(addrs)
		for _, k := range addrs {
			a := sh.Accounts[k]
			put([]byte(k))
			for _, f := range scalarFields {
				put(fieldBytes(a, f))
			}
			keys := make([]string, 0, len(a.Storage))
			for sk := range a.Storage {
				keys = append(keys, sk)
			}
			sort.Strings(keys)
			for _, sk := range keys {
				put([]byte(sk))
				put(a.Storage[sk])
			}
			buf.WriteByte(';')
		}
		buf.WriteByte('}')
	}
	return buf.Bytes()
}

func (w *World) Digest() uint64 {
	h := fnv.New64a()
	h.Write(w.Canonical())
	return h.Sum64()
}

// Clone builds a new world (fresh containers, same configuration) with the same account state,
// the current gas schedule (given by the caller through cfg) and payability table.
func (w *World) Clone() (*World, error) {
	c, err := New(w.Cfg)
	if err != nil {
		return nil, err
	}
	c.MergeDecode = w.MergeDecode
	c.AliasStorage = w.AliasStorage
	c.CopyOnLoad = w.CopyOnLoad
	c.TimestampOf = w.TimestampOf
	for k, v := range w.Payable {
		c.Payable[k] = v
	}
	nEpoch := len(w.EpochHist)
	if w.Cfg.ConfirmEpoch != nil {
		// New already delivered the construction-time epoch
		c.EpochHist = nil
	}
	for _, m := range w.SchedHist {
		c.GasScheduleChange(m)
	}
	start := 0
	if w.Cfg.ConfirmEpoch != nil {
		start = 1
	}
	for _, e := range w.EpochHist[start:nEpoch] {
		c.ConfirmEpoch(e)
	}
	c.EpochHist = append([]uint32{}, w.EpochHist...)
	snap := w.Snapshot()
	c.Restore(snap)
	return c, nil
}

// Account returns the live account at its home shard (nil for metachain addresses).
func (w *World) Account(addr []byte) *Account {
	sid := ComputeShard(w.NumShards, addr)
	if sid >= w.NumShards {
		return nil
	}
	return w.Shards[sid].Get(addr)
}

// AccountIfExists does not create.
func (w *World) AccountIfExists(addr []byte) *Account {
	sid := ComputeShard(w.NumShards, addr)
	if sid >= w.NumShards {
		return nil
	}
	return w.Shards[sid].Accounts[string(addr)]
}
