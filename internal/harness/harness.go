// Package harness holds the plumbing shared by every check: the seeded PRNG, the per-worker
// reporter (violations, coverage counters, distinct signatures, samples), the parent that fans
// batches out to child processes, evidence writing and known-finding matching.
package harness

import (
	"bufio"
	"encoding/json"
	"fmt"
	"hash/fnv"
	"os"
	"os/exec"
	"path/filepath"
	"runtime"
	"sort"
	"strings"
	"sync"
	"syscall"
	"time"

	"verif/internal/tick"
)

// VerifDir is where evidence, replays and the known-findings file live.
var VerifDir = "/verif"

func init() {
	// scratch copies of the harness (tools/lane.sh: seeded changes evaluated next to the real
	// /verif) keep their evidence and replays to themselves
	if d := os.Getenv("VERIF_DIR"); d != "" {
		VerifDir = d
	}
}

// ---------------------------------------------------------------------------------------------
// PRNG (splitmix64 – explicit, seed determined, no global state)

type Rand struct{ s uint64 }

func NewRand(seed uint64) *Rand { return &Rand{s: seed*0x9E3779B97F4A7C15 + 0x1234567} }

func (r *Rand) U64() uint64 {
	r.s += 0x9E3779B97F4A7C15
	z := r.s
	z = (z ^ (z >> 30)) * 0xBF58476D1CE4E5B9
	z = (z ^ (z >> 27)) * 0x94D049BB133111EB
	return z ^ (z >> 31)
}
func (r *Rand) Intn(n int) int {
	if n <= 0 {
		return 0
	}
	return int(r.U64() % uint64(n))
}
func (r *Rand) Bool() bool            { return r.U64()&1 == 1 }
func (r *Rand) Chance(p int) bool     { return r.Intn(100) < p }
func (r *Rand) Fork(tag uint64) *Rand { return NewRand(r.U64() ^ (tag * 0xD6E8FEB86659FD93)) }

// Side derives an independent stream WITHOUT advancing r (adding a side stream to a workload leaves
// the workload's own draws unchanged).
func (r *Rand) Side(tag uint64) *Rand {
	return NewRand(r.s ^ (tag * 0xD6E8FEB86659FD93) ^ 0xA5A5A5A55A5A5A5A)
}
func (r *Rand) Bytes(n int) []byte {
	b := make([]byte, n)
	for i := range b {
		b[i] = byte(r.U64())
	}
	return b
}

func Hash64(parts ...string) uint64 {
	h := fnv.New64a()
	for _, p := range parts {
		h.Write([]byte(p))
		h.Write([]byte{0})
	}
	return h.Sum64()
}

// ---------------------------------------------------------------------------------------------
// Reporter (one per worker)

type Violation struct {
	Property string      `json:"property"`
	Sig      string      `json:"sig"`  // root-cause signature, matched against known_findings.json
	What     string      `json:"what"` // human readable
	Seed     int64       `json:"seed"`
	Tier     string      `json:"tier"`
	Batch    int         `json:"batch"`
	Batches  int         `json:"batches"`
	Witness  interface{} `json:"witness,omitempty"`
}

type Reporter struct {
	mu         sync.Mutex
	Prop       string
	Evals      int64
	Cov        map[string]int64
	distinct   map[uint64]struct{}
	Samples    []interface{}
	Violations []Violation
	Notes      []string
	maxViol    int
	sigSeen    map[string]int
}

func NewReporter(prop string) *Reporter {
	return &Reporter{Prop: prop, Cov: map[string]int64{}, distinct: map[uint64]struct{}{}, maxViol: 40, sigSeen: map[string]int{}}
}

func (r *Reporter) Eval(n int) { r.mu.Lock(); r.Evals += int64(n); r.mu.Unlock() }

// Cover counts an armed, non-vacuous observation under a signature key.
func (r *Reporter) Cover(key string) {
	r.mu.Lock()
	r.Cov[key]++
	r.mu.Unlock()
}
func (r *Reporter) CoverN(key string, n int64) {
	r.mu.Lock()
	r.Cov[key] += n
	r.mu.Unlock()
}

// Distinct records a distinct non-trivial case (by hash).
func (r *Reporter) Distinct(h uint64) {
	r.mu.Lock()
	if len(r.distinct) < 400000 {
		r.distinct[h] = struct{}{}
	}
	r.mu.Unlock()
}
func (r *Reporter) DistinctS(parts ...string) { r.Distinct(Hash64(parts...)) }

func (r *Reporter) Sample(v interface{}) {
	r.mu.Lock()
	if len(r.Samples) < 6 {
		r.Samples = append(r.Samples, v)
	}
	r.mu.Unlock()
}
func (r *Reporter) Note(s string) {
	r.mu.Lock()
	if len(r.Notes) < 20 {
		r.Notes = append(r.Notes, s)
	}
	r.mu.Unlock()
}

// Violate records a violation. At most 3 witnesses per signature are kept.
func (r *Reporter) Violate(sig, what string, witness interface{}) {
	r.mu.Lock()
	defer r.mu.Unlock()
	r.Cov["violations_raw"]++
	r.sigSeen[sig]++
	if r.sigSeen[sig] > 3 || len(r.Violations) >= r.maxViol {
		return
	}
	r.Violations = append(r.Violations, Violation{Property: r.Prop, Sig: sig, What: what, Witness: witness})
}

type workerResult struct {
	Evals      int64            `json:"evals"`
	Cov        map[string]int64 `json:"cov"`
	Distinct   []uint64         `json:"distinct"`
	Samples    []interface{}    `json:"samples"`
	Violations []Violation      `json:"violations"`
	Notes      []string         `json:"notes"`
	Done       bool             `json:"done"`
}

// ---------------------------------------------------------------------------------------------
// Property registry

type Ctx struct {
	Prop    string
	Tier    string // quick | thorough
	Seed    int64
	Batch   int // 0-based
	Batches int
	Race    bool // running in the -race binary
	R       *Reporter
}

func (c *Ctx) Thorough() bool { return c.Tier == "thorough" }

// Rand returns the PRNG stream of this batch for a given purpose tag.
func (c *Ctx) Rand(tag string) *Rand {
	return NewRand(uint64(c.Seed)*1000003 ^ Hash64(c.Prop, tag) ^ uint64(c.Batch)*0x9E3779B97F4A7C15)
}

// Scale picks the quick or thorough value.
func (c *Ctx) Scale(quick, thorough int) int {
	if c.Thorough() {
		return thorough
	}
	return quick
}

type Property struct {
	ID          string
	Level       string // exploration | fault_enumeration
	Rule        string
	Assumptions []string
	// Batches returns how many batches to split into for a tier.
	Batches func(tier string) int
	// Run executes one batch.
	Run func(c *Ctx)
	// Floors: coverage keys (or prefixes ending in '*', summed) that must reach the floor in
	// aggregate, else the run is inconclusive.
	Floors map[string]int64
	// NeedsRace: the batch must run in the -race binary.
	NeedsRace bool
	// RaceInThorough: the thorough tier additionally runs (up to 8) batches in the -race binary.
	RaceInThorough bool
	// DeathIsViolation: an unexpected child death counts as a violation of this property.
	DeathIsViolation bool
	// OwnStallDetection: the check drives the library from several goroutines and decides itself
	// whether a goroutine is blocked for ever (C19).
	OwnStallDetection bool
	// Exhaustive reports whether the run enumerated its (finite) space completely.
	Exhaustive bool
	// MemLimitMB applies RLIMIT_AS to the (non-race) worker; 0 = none.
	MemLimitMB int
	// TimeoutS is the wall-clock watchdog per batch (inconclusive when it fires).
	TimeoutS func(tier string) int
}

// ExtraNotes lets the workload packages hand setup failures to the reporter (set by props).
var ExtraNotes func() []string

var registry = map[string]*Property{}

func Register(p *Property)    { registry[p.ID] = p }
func Get(id string) *Property { return registry[id] }
func IDs() []string {
	var ids []string
	for k := range registry {
		ids = append(ids, k)
	}
	sort.Strings(ids)
	return ids
}

// ---------------------------------------------------------------------------------------------
// Worker side

// RunWorker executes one batch in this process and prints the result as one JSON line.
func RunWorker(prop, tier string, seed int64, batch, batches int, race bool) int {
	p := Get(prop)
	if p == nil {
		fmt.Fprintf(os.Stderr, "unknown property %s\n", prop)
		return 2
	}
	if p.MemLimitMB > 0 && !race {
		lim := uint64(p.MemLimitMB) << 20
		_ = syscall.Setrlimit(syscall.RLIMIT_AS, &syscall.Rlimit{Cur: lim, Max: lim})
	}
	rep := NewReporter(prop)
	c := &Ctx{Prop: prop, Tier: tier, Seed: seed, Batch: batch, Batches: batches, Race: race, R: rep}
	if !p.OwnStallDetection {
		go stallDetector()
	}
	p.Run(c)
	if ExtraNotes != nil {
		for _, n := range ExtraNotes() {
			rep.Cover("harness/setup-failures")
			rep.Note("setup step failed: " + n)
		}
	}
	res := workerResult{Evals: rep.Evals, Cov: rep.Cov, Samples: rep.Samples, Violations: rep.Violations, Notes: rep.Notes, Done: true}
	for h := range rep.distinct {
		res.Distinct = append(res.Distinct, h)
	}
	for i := range res.Violations {
		res.Violations[i].Seed = seed
		res.Violations[i].Tier = tier
		res.Violations[i].Batch = batch
		res.Violations[i].Batches = batches
	}
	out := bufio.NewWriterSize(os.Stdout, 1<<20)
	enc := json.NewEncoder(out)
	fmt.Fprint(out, "\n@@RESULT@@ ")
	if err := enc.Encode(&res); err != nil {
		fmt.Fprintf(os.Stderr, "encode: %v\n", err)
		return 2
	}
	out.Flush()
	return 0
}

// stallDetector: the workers of every check but C19 drive the library from ONE goroutine. If that
// goroutine sits in a lock acquisition below a frame of the library while no other goroutine is
// inside the library, nothing can ever release the lock: a lock was taken and not given back (an
// early return between Lock and Unlock). The decision is structural (who is where), taken from
// six identical samples five seconds apart; the clock only paces the sampling. The worker prints
// the dump and exits with status 3; the parent turns that into `blocked-forever` (a violation
// where the property promises that calls return, inconclusive elsewhere) instead of waiting for
// the batch watchdog.
func stallDetector() {
	same := 0
	last := ""
	var buf []byte
	lastTick := ^uint64(0)
	for {
		time.Sleep(5 * time.Second)
		// nothing is looked at (and nothing allocated) while calls keep starting and returning
		if t := tick.Legs.Load(); t != lastTick {
			lastTick, same, last = t, 0, ""
			continue
		}
		tick.Dumps.Add(1)
		if buf == nil {
			buf = make([]byte, 4<<20)
		}
		n := runtime.Stack(buf, true)
		blocked, where := blockedInLibrary(string(buf[:n]))
		if !blocked {
			same, last = 0, ""
			continue
		}
		if where == last {
			same++
		} else {
			same, last = 1, where
		}
		if same >= 6 {
			fmt.Fprintf(os.Stdout, "\n@@STALL@@ %s\n", where)
			fmt.Fprintf(os.Stderr, "%s\n", buf[:n])
			os.Exit(3)
		}
	}
}

// blockedInLibrary: exactly one goroutine has library frames, and it waits for a sync lock.
func blockedInLibrary(dump string) (bool, string) {
	const lib = "github.com/ElrondNetwork/elrond-vm-common"
	inLib := 0
	where := ""
	waiting := false
	for _, g := range strings.Split(dump, "\n\n") {
		if !strings.Contains(g, lib+"/") && !strings.Contains(g, lib+".") {
			continue
		}
		inLib++
		head := g
		if i := strings.IndexByte(g, '\n'); i >= 0 {
			head = g[:i]
		}
		if strings.Contains(head, "[sync.RWMutex.RLock") || strings.Contains(head, "[sync.RWMutex.Lock") || strings.Contains(head, "[sync.Mutex.Lock") || strings.Contains(head, "[semacquire") {
			waiting = true
			for _, l := range strings.Split(g, "\n") {
				if strings.HasPrefix(l, lib) {
					where = head[strings.IndexByte(head, '[')+1:] + " " + l
					if i := strings.LastIndexByte(l, '('); i > 0 {
						where = strings.TrimSuffix(strings.SplitN(head[strings.IndexByte(head, '[')+1:], "]", 2)[0], ":") + " in " + l[:i]
					}
					break
				}
			}
		}
	}
	return inLib == 1 && waiting, where
}

// ---------------------------------------------------------------------------------------------
// Known findings

type Finding struct {
	Property string `json:"property"`
	Status   string `json:"status"` // open | fixed
	Sig      string `json:"sig"`    // exact signature or prefix ending in '*'
	What     string `json:"what"`
	Commit   string `json:"commit,omitempty"`
}

func loadFindings() []Finding {
	b, err := os.ReadFile(filepath.Join(VerifDir, "known_findings.json"))
	if err != nil {
		return nil
	}
	var f struct {
		Findings []Finding `json:"findings"`
	}
	if json.Unmarshal(b, &f) != nil {
		return nil
	}
	return f.Findings
}

func matchOpen(fs []Finding, prop, sig string) *Finding {
	for i := range fs {
		f := &fs[i]
		if f.Status != "open" || f.Property != prop {
			continue
		}
		if f.Sig == sig || (strings.HasSuffix(f.Sig, "*") && strings.HasPrefix(sig, strings.TrimSuffix(f.Sig, "*"))) {
			return f
		}
	}
	return nil
}

// ---------------------------------------------------------------------------------------------
// Parent side

type batchOutcome struct {
	res     *workerResult
	died    bool
	timeout bool
	stalled string // the worker's stall detector fired: where the single library goroutine waits
	stderr  string
	batch   int
	raceN   int
	raceTxt string
	raceRun bool
}

// RunCheck is the parent: fans out batches, aggregates, writes evidence, prints verdict lines.
// Exit codes: 0 held, 1 violation, 2 inconclusive / harness failure.
func RunCheck(prop, tier string, seed int64, self, selfRace string, onlyBatch int) int {
	p := Get(prop)
	if p == nil {
		fmt.Printf("unknown property %s\n", prop)
		return 2
	}
	start := time.Now()
	batches := 1
	if p.Batches != nil {
		batches = p.Batches(tier)
	}
	timeout := 600
	if p.TimeoutS != nil {
		timeout = p.TimeoutS(tier)
	}
	bin := self
	if p.NeedsRace {
		bin = selfRace
	}
	par := 16
	if p.NeedsRace {
		par = 4
	}
	outcomes := make([]batchOutcome, batches)
	sem := make(chan struct{}, par)
	var wg sync.WaitGroup
	for b := 0; b < batches; b++ {
		if onlyBatch >= 0 && b != onlyBatch {
			outcomes[b] = batchOutcome{batch: b, res: &workerResult{Done: true, Cov: map[string]int64{}}}
			continue
		}
		wg.Add(1)
		go func(b int) {
			defer wg.Done()
			sem <- struct{}{}
			defer func() { <-sem }()
			outcomes[b] = runChild(bin, p.NeedsRace, p, prop, tier, seed, b, batches, timeout)
		}(b)
	}
	wg.Wait()
	// thorough tier of a property that asks for it: the same batches once more under the race
	// detector (the worker scales its workload down when it runs in the race build)
	raceAlso := p.RaceInThorough && tier == "thorough" && !p.NeedsRace && onlyBatch < 0
	if raceAlso {
		rb := batches
		if rb > 8 {
			rb = 8
		}
		extra := make([]batchOutcome, rb)
		sem2 := make(chan struct{}, 4)
		for b := 0; b < rb; b++ {
			wg.Add(1)
			go func(b int) {
				defer wg.Done()
				sem2 <- struct{}{}
				defer func() { <-sem2 }()
				extra[b] = runChild(selfRace, true, p, prop, tier, seed+1000003, b, rb, timeout)
				extra[b].raceRun = true
			}(b)
		}
		wg.Wait()
		outcomes = append(outcomes, extra...)
	}

	agg := workerResult{Cov: map[string]int64{}}
	distinct := map[uint64]struct{}{}
	inconclusive := []string{}
	var viol []Violation
	if p.NeedsRace || raceAlso {
		agg.Cov["race-detector/batches-run-under-race-detector"] = 0
		agg.Cov["race-detector/report-blocks"] = 0
	}
	for _, o := range outcomes {
		if (p.NeedsRace || o.raceRun) && o.res != nil {
			agg.Cov["race-detector/batches-run-under-race-detector"]++
			agg.Cov["race-detector/report-blocks"] += int64(o.raceN)
		}
		if o.timeout {
			inconclusive = append(inconclusive, fmt.Sprintf("batch %d: watchdog (%ds) fired", o.batch, timeout))
			continue
		}
		if o.raceN > 0 && !strings.Contains(o.raceTxt, "/repo/") {
			inconclusive = append(inconclusive, fmt.Sprintf("batch %d: %d race report(s) without a frame in /repo (harness race?): %s", o.batch, o.raceN, truncate(o.raceTxt, 1500)))
		} else if o.raceN > 0 {
			viol = append(viol, Violation{Property: prop, Sig: "race:" + raceSig(o.raceTxt), What: fmt.Sprintf("%d data race report(s) from the race detector", o.raceN),
				Seed: seed, Tier: tier, Batch: o.batch, Batches: batches, Witness: truncate(o.raceTxt, 6000)})
		}
		if o.stalled != "" {
			if p.DeathIsViolation {
				viol = append(viol, Violation{Property: prop, Sig: "blocked-forever:" + o.stalled, What: "a call never returned: the only goroutine inside the library waits for a lock that nobody holds any more (taken and not released on some path): " + o.stalled,
					Seed: seed, Tier: tier, Batch: o.batch, Batches: batches, Witness: truncate(o.stderr, 6000)})
			} else {
				inconclusive = append(inconclusive, fmt.Sprintf("batch %d: a call never returned (lock taken and not released): %s", o.batch, o.stalled))
			}
			continue
		}
		if o.died || o.res == nil {
			if p.DeathIsViolation {
				viol = append(viol, Violation{Property: prop, Sig: "child-death:" + deathSig(o.stderr), What: "worker process died (fatal error / unrecovered panic / out of memory)",
					Seed: seed, Tier: tier, Batch: o.batch, Batches: batches, Witness: truncate(o.stderr, 6000)})
			} else {
				inconclusive = append(inconclusive, fmt.Sprintf("batch %d: worker died: %s", o.batch, truncate(o.stderr, 800)))
			}
			continue
		}
		agg.Evals += o.res.Evals
		for k, v := range o.res.Cov {
			agg.Cov[k] += v
		}
		for _, h := range o.res.Distinct {
			distinct[h] = struct{}{}
		}
		for _, s := range o.res.Samples {
			if len(agg.Samples) < 8 {
				agg.Samples = append(agg.Samples, s)
			}
		}
		agg.Notes = append(agg.Notes, o.res.Notes...)
		viol = append(viol, o.res.Violations...)
	}

	// floors
	if onlyBatch < 0 {
		for k, floor := range p.Floors {
			var got int64
			if strings.HasSuffix(k, "*") {
				pre := strings.TrimSuffix(k, "*")
				for ck, v := range agg.Cov {
					if strings.HasPrefix(ck, pre) {
						got += v
					}
				}
			} else {
				got = agg.Cov[k]
			}
			if got < floor {
				inconclusive = append(inconclusive, fmt.Sprintf("coverage floor not met: %s = %d < %d", k, got, floor))
			}
		}
	}

	if n := agg.Cov["harness/setup-failures"]; n > 0 {
		first := ""
		for _, x := range agg.Notes {
			if strings.HasPrefix(x, "setup step failed") {
				first = x
				break
			}
		}
		inconclusive = append(inconclusive, fmt.Sprintf("%d workload setup step(s) did not succeed (%s)", n, first))
	}

	// known findings
	findings := loadFindings()
	knownPrinted := map[string]bool{}
	var fresh []Violation
	for _, v := range viol {
		if f := matchOpen(findings, prop, v.Sig); f != nil {
			if !knownPrinted[f.Sig] {
				fmt.Printf("KNOWN-FINDING: property=%s %s\n", prop, f.What)
				knownPrinted[f.Sig] = true
			}
			continue
		}
		fresh = append(fresh, v)
	}

	// replay files + verdict lines
	replayDir := filepath.Join(VerifDir, "replays", prop)
	if onlyBatch < 0 {
		_ = os.RemoveAll(replayDir)
	}
	_ = os.MkdirAll(replayDir, 0o755)
	printed := map[string]int{}
	for i, v := range fresh {
		printed[v.Sig]++
		if printed[v.Sig] > 2 {
			continue
		}
		path := filepath.Join(replayDir, fmt.Sprintf("%d-%s-%d.json", seed, tier, i))
		b, _ := json.MarshalIndent(v, "", " ")
		_ = os.WriteFile(path, b, 0o644)
		fmt.Printf("VIOLATION property=%s replay=%s\n", prop, path)
		fmt.Printf("  sig=%s\n  what=%s\n", v.Sig, truncate(v.What, 1500))
	}

	wall := time.Since(start).Seconds()
	if onlyBatch < 0 {
		writeEvidence(p, tier, seed, &agg, len(distinct), len(fresh), len(knownPrinted), wall, inconclusive)
	}

	// summary
	keys := make([]string, 0, len(agg.Cov))
	for k := range agg.Cov {
		keys = append(keys, k)
	}
	sort.Strings(keys)
	fmt.Printf("[%s %s seed=%d] evaluations=%d distinct=%d batches=%d wall=%.1fs violations=%d known=%d\n", prop, tier, seed, agg.Evals, len(distinct), batches, wall, len(fresh), len(knownPrinted))
	if os.Getenv("VERIF_VERBOSE") != "" {
		for _, k := range keys {
			fmt.Printf("   cov %-70s %d\n", k, agg.Cov[k])
		}
		for _, n := range agg.Notes {
			fmt.Printf("   note %s\n", n)
		}
	}
	if len(fresh) > 0 {
		return 1
	}
	if len(inconclusive) > 0 {
		for _, s := range inconclusive {
			fmt.Printf("INCONCLUSIVE property=%s %s\n", prop, s)
		}
		return 2
	}
	return 0
}

func truncate(s string, n int) string {
	if len(s) <= n {
		return s
	}
	return s[:n] + "…"
}

func deathSig(stderr string) string {
	for _, line := range strings.Split(stderr, "\n") {
		if strings.HasPrefix(line, "fatal error:") || strings.HasPrefix(line, "panic:") || strings.HasPrefix(line, "runtime:") {
			return truncate(line, 80)
		}
	}
	return "unknown"
}

func raceSig(txt string) string {
	// first /repo frame of the first report, line numbers stripped
	for _, line := range strings.Split(txt, "\n") {
		line = strings.TrimSpace(line)
		if strings.Contains(line, "elrond-vm-common") && strings.Contains(line, "(") && !strings.HasPrefix(line, "/") && !strings.HasPrefix(line, "verif/") {
			if i := strings.Index(line, "("); i > 0 {
				return line[:i]
			}
		}
	}
	return "unknown"
}

func runChild(bin string, race bool, p *Property, prop, tier string, seed int64, batch, batches, timeoutS int) batchOutcome {
	o := batchOutcome{batch: batch}
	args := []string{"--worker", prop, "--tier", tier, "--seed", fmt.Sprint(seed), "--batch", fmt.Sprint(batch), "--batches", fmt.Sprint(batches)}
	cmd := exec.Command(bin, args...)
	tmp, err := os.MkdirTemp("", "vcheck-"+prop+"-")
	if err != nil {
		o.died = true
		o.stderr = err.Error()
		return o
	}
	defer os.RemoveAll(tmp)
	outF, _ := os.Create(filepath.Join(tmp, "out"))
	errF, _ := os.Create(filepath.Join(tmp, "err"))
	cmd.Stdout = outF
	cmd.Stderr = errF
	cmd.Env = append(os.Environ(), "GOTRACEBACK=all")
	if race {
		cmd.Env = append(cmd.Env, "GORACE=halt_on_error=0 log_path="+filepath.Join(tmp, "race.log"))
	}
	if err := cmd.Start(); err != nil {
		o.died = true
		o.stderr = err.Error()
		return o
	}
	done := make(chan error, 1)
	go func() { done <- cmd.Wait() }()
	select {
	case <-done:
	case <-time.After(time.Duration(timeoutS) * time.Second):
		_ = cmd.Process.Signal(syscall.SIGQUIT)
		select {
		case <-done:
		case <-time.After(5 * time.Second):
			_ = cmd.Process.Kill()
			<-done
		}
		o.timeout = true
	}
	outF.Close()
	errF.Close()
	ob, _ := os.ReadFile(filepath.Join(tmp, "out"))
	eb, _ := os.ReadFile(filepath.Join(tmp, "err"))
	o.stderr = string(eb)
	if race {
		matches, _ := filepath.Glob(filepath.Join(tmp, "race.log*"))
		for _, m := range matches {
			rb, _ := os.ReadFile(m)
			o.raceN += strings.Count(string(rb), "WARNING: DATA RACE")
			if len(o.raceTxt) < 20000 {
				o.raceTxt += string(rb)
			}
		}
	}
	if o.timeout {
		return o
	}
	if i := strings.LastIndex(string(ob), "@@STALL@@ "); i >= 0 {
		o.stalled = strings.TrimSpace(strings.SplitN(string(ob[i+len("@@STALL@@ "):]), "\n", 2)[0])
		return o
	}
	idx := strings.LastIndex(string(ob), "@@RESULT@@ ")
	if idx < 0 {
		o.died = true
		if len(o.stderr) == 0 {
			o.stderr = truncate(string(ob), 2000)
		}
		return o
	}
	var res workerResult
	if err := json.Unmarshal(ob[idx+len("@@RESULT@@ "):], &res); err != nil || !res.Done {
		o.died = true
		o.stderr += fmt.Sprintf("\nresult decode: %v", err)
		return o
	}
	o.res = &res
	return o
}

// ---------------------------------------------------------------------------------------------
// Evidence

func writeEvidence(p *Property, tier string, seed int64, agg *workerResult, distinct, violations, known int, wall float64, inconclusive []string) {
	cov := map[string]interface{}{
		"evaluations":         agg.Evals,
		"distinct_nontrivial": distinct,
		"rule":                p.Rule,
		"samples":             agg.Samples,
		"observed":            agg.Cov,
		"exhaustive":          p.Exhaustive,
	}
	if len(agg.Samples) == 0 {
		cov["samples"] = []interface{}{"(no sample recorded)"}
	}
	if len(agg.Notes) > 0 {
		cov["notes"] = agg.Notes
	}
	if len(inconclusive) > 0 {
		cov["inconclusive"] = inconclusive
	}
	if known > 0 {
		cov["known_findings_matched"] = known
	}
	ev := map[string]interface{}{
		"property_id": p.ID,
		"tier":        tier,
		"seed":        seed,
		"level":       p.Level,
		"coverage":    cov,
		"assumptions": append([]string{}, p.Assumptions...),
		"wall_s":      float64(int(wall*10)) / 10,
		"violations":  violations,
	}
	b, _ := json.MarshalIndent(ev, "", " ")
	_ = os.MkdirAll(filepath.Join(VerifDir, "evidence"), 0o755)
	_ = os.WriteFile(filepath.Join(VerifDir, "evidence", p.ID+".json"), append(b, '\n'), 0o644)
}
