package node_test

import (
	"math/big"
	"testing"

	"verif/internal/gen"
	"verif/internal/harness"
	"verif/internal/node"
)

func TestSmoke(t *testing.T) {
	u, err := gen.NewUniverse(harness.NewRand(1), gen.UniOpts{Shards: 2, Users: 4, Contracts: 2})
	if err != nil {
		t.Fatal(err)
	}
	u.N.Observers = append(u.N.Observers, func(n *node.Node, l *node.Leg) {
		t.Logf("leg %d side=%d shard=%d %s => ok=%v err=%v panic=%q diff=%d emitted=%d mut=%q", l.Seq, l.Side, l.Shard, l.Call, l.OK, l.Err, l.Panic, len(l.Diff), len(l.Emitted), l.InputMut)
	})
	f := u.Tokens[0].ID
	gen.Must(u.Issue(u.Users[0], f, big.NewInt(1000)), "issue")
	gen.Must(u.N.Exec(gen.TransferCall(u.Users[0], u.Users[2], f, big.NewInt(10), gen.BigGas)), "same shard")
	l := u.N.Exec(gen.TransferCall(u.Users[0], u.Users[1], f, big.NewInt(10), gen.BigGas))
	gen.Must(l, "cross")
	if len(u.N.Pool) != 1 {
		t.Fatalf("pool %d", len(u.N.Pool))
	}
	gen.Must(u.N.Deliver(0), "deliver")
	t.Log(u.Balance(u.Users[0], f, 0), u.Balance(u.Users[1], f, 0), u.Balance(u.Users[2], f, 0))
	s := u.Tokens[2].ID
	gen.Must(u.SetRoles(u.Users[0], s, gen.AllRoles...), "roles")
	gen.Must(u.Create(u.Users[0], s, 5, "name", "hash", "attr", 100, "uri1", "uri2"), "create")
	gen.Must(u.N.Exec(gen.NFTTransferCall(u.Users[0], u.Users[1], s, 1, big.NewInt(2), gen.BigGas)), "nft cross")
	gen.Must(u.N.Deliver(0), "deliver nft")
	gen.Must(u.N.Exec(gen.MultiCall(u.Users[0], u.Users[1], []gen.Item{{f, 0, big.NewInt(3)}, {s, 1, big.NewInt(1)}}, gen.BigGas)), "multi cross")
	gen.Must(u.N.Deliver(0), "deliver multi")
	gen.Must(u.N.Exec(gen.MultiCall(u.Users[0], u.Users[2], []gen.Item{{f, 0, big.NewInt(3)}, {s, 1, big.NewInt(1)}}, gen.BigGas)), "multi same")
	t.Log(u.Balance(u.Users[0], f, 0), u.Balance(u.Users[1], f, 0), u.Balance(u.Users[2], f, 0))
	gen.Must(u.Pause(1, f), "pause")
	l = u.N.Exec(gen.TransferCall(u.Users[0], u.Users[1], f, big.NewInt(10), gen.BigGas))
	gen.Must(l, "cross to paused")
	l = u.N.Deliver(0)
	if l.OK {
		t.Fatal("paused dest accepted")
	}
	gen.Must(u.N.Deliver(0), "refund")
	gen.Must(u.HandOver(u.Users[0], u.Users[1], s), "handover")
	gen.Must(u.N.Deliver(0), "handover deliver")
	t.Log(u.Roles(u.Users[0], s), u.Roles(u.Users[1], s))
}
