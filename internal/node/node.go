// Package node is the mini-node driver: it plays the protocol around the library (sender leg,
// in-flight messages, destination leg, rollback on error, refund on destination failure) and
// emits one Leg event per executed leg for the monitors.
package node

import (
	"bytes"
	"encoding/hex"
	"fmt"
	"math/big"
	"runtime"
	"runtime/debug"
	"strings"

	vmcommon "github.com/ElrondNetwork/elrond-vm-common"
	"verif/internal/tick"
	"verif/internal/world"
)

const (
	SideSender = 0
	SideDest   = 1
)

const (
	MsgContinuation = 0 // continues a built-in operation on another shard
	MsgAttached     = 1 // attached contract call (no VM here): recorded, not executed
	MsgMeta         = 2 // notice to the metachain: recorded, not executed
)

const KeyPrefix = "ELRONDesdt"
const RolePrefix = "ELRONDroleesdt"
const NoncePrefix = "ELRONDnonce"

type Call struct {
	Func        string
	Caller      []byte
	Recipient   []byte
	Args        [][]byte
	Gas         uint64
	GasLocked   uint64
	CallType    vmcommon.CallType
	CallValue   *big.Int
	RetAfterErr bool
}

func (c Call) String() string {
	var sb strings.Builder
	fmt.Fprintf(&sb, "%s(", c.Func)
	for i, a := range c.Args {
		if i > 0 {
			sb.WriteByte(',')
		}
		if len(a) > 40 {
			fmt.Fprintf(&sb, "%x…[%d]", a[:16], len(a))
		} else {
			fmt.Fprintf(&sb, "%x", a)
		}
	}
	fmt.Fprintf(&sb, ") caller=%s rcv=%s gas=%d ct=%d", ShortAddr(c.Caller), ShortAddr(c.Recipient), c.Gas, c.CallType)
	if c.RetAfterErr {
		sb.WriteString(" retAfterErr")
	}
	if c.CallValue != nil && c.CallValue.Sign() != 0 {
		fmt.Fprintf(&sb, " value=%s", c.CallValue)
	}
	return sb.String()
}

func ShortAddr(a []byte) string {
	if len(a) == 0 {
		return "-"
	}
	if bytes.Equal(a, vmcommon.ESDTSCAddress) {
		return "ESDTSC"
	}
	if bytes.Equal(a, vmcommon.SystemAccountAddress) {
		return "SYSACC"
	}
	if len(a) >= 12 {
		return fmt.Sprintf("%x..%x", a[:2], a[len(a)-2:])
	}
	return hex.EncodeToString(a)
}

// TokenMove is one (token, nonce, quantity) a transfer call names, computed from its inputs.
type TokenMove struct {
	TokenID []byte
	Nonce   uint64
	Qty     *big.Int
}

// StorageKey is ELRONDesdt ‖ id ‖ minimal big-endian nonce.
func StorageKey(id []byte, nonce uint64) string {
	k := KeyPrefix + string(id)
	if nonce != 0 {
		k += string(new(big.Int).SetUint64(nonce).Bytes())
	}
	return k
}
func (m TokenMove) Key() string { return StorageKey(m.TokenID, m.Nonce) }

type Message struct {
	ID          int
	Data        string
	Func        string
	Args        [][]byte
	ParseErr    string
	From, To    []byte
	Gas         uint64
	GasLocked   uint64
	CallType    vmcommon.CallType
	RetAfterErr bool
	Kind        int
	TxItself    bool
	IsRefund    bool
	RefundOf    int         // id of the message this refund answers
	Origin      *Call       // the call whose sender leg emitted it (for refunds: of the original message)
	Moves       []TokenMove // tokens carried (from Origin's inputs)
	OriginLeg   int
	// Raw is the very slice the library handed out as OutputTransfer.Data and rawAt its content at
	// that moment: until a message is delivered it IS that memory (the node serialises it later).
	// If the library writes into it afterwards (a reused buffer), the message that arrives is the
	// changed one.
	Raw             []byte
	rawAt           string
	ChangedInFlight bool
}

type Leg struct {
	Seq        int
	Side       int
	Shard      uint32
	Call       Call
	Msg        *Message
	SndPresent bool
	DstPresent bool
	Input      *vmcommon.ContractCallInput
	Out        *vmcommon.VMOutput
	Err        error
	Panic      string
	Stack      string
	// Aborted: an injected dependency fault fired and the call failed. The node treats that as a
	// processing failure (the state is rolled back and the transaction / message is processed again
	// later), not as a rejection by the function: no refund, the message stays in flight.
	Aborted    bool
	FaultFired bool
	OK         bool // committed
	NoFunc     bool // function name not in the container
	Inactive   bool
	Pre        *world.Snapshot
	Diff       []world.Change
	RawDiff    []world.Change
	Emitted    []*Message
	Deps       []world.DepCall
	Discarded  []string
	InputMut   string      // non-empty: the call modified its input
	Moves      []TokenMove // for transfer legs: the moves named by the call (sender form or message)
	LogicalDst []byte
	AllocBytes uint64         // heap bytes allocated during the call (only when Node.MeasureAlloc)
	PayableAt  map[string]int // payability table at the time of the leg (only when Node.RecordPayable)
}

type Node struct {
	W         *world.World
	Pool      []*Message
	Observers []func(n *Node, l *Leg)
	seq       int
	msgID     int
	// KeepFailedDiff: record the raw (pre-rollback) diff for failed legs.
	KeepRawDiff bool
	// NoRollback leaves failed legs' effects in place (C17 inspects them itself).
	MeasureAlloc  bool
	RecordPayable bool
	// PreRun is called with the sequence number of the leg about to execute (fault plans).
	PreRun func(seq int)
	// NoScribble: leave the returned output untouched (replay twins, whose output is compared after
	// the call returned).
	NoScribble bool
	// AbortOnFault: a call that fails because an injected dependency fault fired is an aborted
	// processing attempt (see Leg.Aborted) instead of a rejection.
	AbortOnFault bool
}

func New(w *world.World) *Node {
	return &Node{W: w, KeepRawDiff: true}
}

// Seq returns the number of legs executed so far.
func (n *Node) Seq() int { return n.seq }

func IsTransferFunc(f string) bool {
	return f == vmcommon.BuiltInFunctionESDTTransfer || f == vmcommon.BuiltInFunctionESDTNFTTransfer || f == vmcommon.BuiltInFunctionMultiESDTNFTTransfer
}

// ---------------------------------------------------------------------------------------------
// Input construction with sentinels

// Sentinel fills the spare capacity behind every argument and address (what lies behind a slice's
// length is not part of the input: results must not depend on it).
var Sentinel byte = 0xEE

const spare = 8

type builtInput struct {
	in      *vmcommon.ContractCallInput
	backing []byte
	copyOf  []byte
	args    [][]byte // deep copy of the arguments
	call    Call
	ambient string // ambientOf(in) when the input was built
}

func u64bytes(v uint64) []byte { return new(big.Int).SetUint64(v).Bytes() }

// buildInput lays every argument (and both addresses) out in ONE backing array, each followed by
// spare capacity filled with a sentinel, so that any append into or write through the input is
// visible afterwards.
func buildInput(c Call) *builtInput {
	total := 0
	for _, a := range c.Args {
		total += len(a) + spare
	}
	total += len(c.Caller) + len(c.Recipient) + 2*spare
	backing := make([]byte, total)
	for i := range backing {
		backing[i] = Sentinel
	}
	off := 0
	place := func(b []byte) []byte {
		copy(backing[off:], b)
		s := backing[off : off+len(b) : off+len(b)+spare]
		off += len(b) + spare
		return s
	}
	args := make([][]byte, len(c.Args), len(c.Args)+2)
	for i, a := range c.Args {
		if a == nil || (len(a) == 0 && i%2 == 1) {
			// an empty argument is as legitimately a nil slice as an empty one (the VM hands over
			// either): odd positions get nil, even positions an empty slice of the backing array
			off += spare
			continue
		}
		args[i] = place(a)
	}
	caller := place(c.Caller)
	rcv := place(c.Recipient)
	cv := c.CallValue
	if cv == nil {
		cv = new(big.Int)
	} else {
		cv = new(big.Int).Set(cv)
	}
	in := &vmcommon.ContractCallInput{
		VMInput: vmcommon.VMInput{
			CallerAddr:           caller,
			Arguments:            args,
			CallValue:            cv,
			CallType:             c.CallType,
			GasPrice:             1,
			GasProvided:          c.Gas,
			GasLocked:            c.GasLocked,
			OriginalTxHash:       []byte("origtx"),
			CurrentTxHash:        []byte("curtx"),
			PrevTxHash:           []byte("prevtx"),
			ReturnCallAfterError: c.RetAfterErr,
		},
		RecipientAddr: rcv,
		Function:      c.Func,
	}
	// the fields a built-in function has no business with (gas price, transaction hashes, the
	// transfer list the VM fills in for contract calls, the init-function switch) vary with the
	// call - as a function of the call itself, so that a replay builds the same input
	h := uint32(2166136261)
	for _, b := range []byte(c.Func) {
		h = (h ^ uint32(b)) * 16777619
	}
	for _, a := range c.Args {
		for _, b := range a {
			h = (h ^ uint32(b)) * 16777619
		}
		h = (h ^ 0xff) * 16777619
	}
	switch h % 5 {
	case 1:
		in.GasPrice, in.OriginalTxHash, in.CurrentTxHash, in.PrevTxHash = 0, nil, nil, nil
		in.ESDTTransfers = []*vmcommon.ESDTTransfer{}
	case 2:
		in.GasPrice = ^uint64(0)
		in.OriginalTxHash, in.CurrentTxHash, in.PrevTxHash = bytes.Repeat([]byte{0xAA}, 32), bytes.Repeat([]byte{0xBB}, 32), bytes.Repeat([]byte{0xCC}, 32)
		in.AllowInitFunction = true
	case 3:
		in.GasPrice = 1000000000
		in.OriginalTxHash, in.CurrentTxHash, in.PrevTxHash = []byte{}, []byte{}, []byte{}
		in.ESDTTransfers = []*vmcommon.ESDTTransfer{{ESDTTokenName: []byte("AMBIENT-000000"), ESDTValue: big.NewInt(1 << 40), ESDTTokenNonce: 7, ESDTTokenType: 1}}
	}
	bi := &builtInput{in: in, backing: backing, call: c}
	bi.ambient = ambientOf(in)
	bi.copyOf = append([]byte{}, backing...)
	return bi
}

func (bi *builtInput) mutated() string {
	if !bytes.Equal(bi.backing, bi.copyOf) {
		for i := range bi.backing {
			if bi.backing[i] != bi.copyOf[i] {
				return fmt.Sprintf("argument backing array byte %d changed %02x -> %02x", i, bi.copyOf[i], bi.backing[i])
			}
		}
	}
	in, c := bi.in, bi.call
	if len(in.Arguments) != len(c.Args) {
		return fmt.Sprintf("Arguments length changed %d -> %d", len(c.Args), len(in.Arguments))
	}
	for i := range c.Args {
		if !bytes.Equal(in.Arguments[i], c.Args[i]) {
			return fmt.Sprintf("argument %d changed", i)
		}
	}
	extra := in.Arguments[:cap(in.Arguments)]
	for i := len(in.Arguments); i < len(extra); i++ {
		if extra[i] != nil {
			return "Arguments slice spare capacity written"
		}
	}
	if !bytes.Equal(in.CallerAddr, c.Caller) || !bytes.Equal(in.RecipientAddr, c.Recipient) {
		return "address changed"
	}
	cv := c.CallValue
	if cv == nil {
		cv = new(big.Int)
	}
	if in.CallValue == nil || in.CallValue.Cmp(cv) != 0 {
		return "CallValue changed"
	}
	if in.Function != c.Func || in.GasProvided != c.Gas || in.GasLocked != c.GasLocked || in.CallType != c.CallType || in.ReturnCallAfterError != c.RetAfterErr {
		return "scalar input field changed"
	}
	if ambientOf(in) != bi.ambient {
		return "tx hash / price / ESDTTransfers / AllowInitFunction field changed"
	}
	return ""
}

// ambientOf: the fields of the input a built-in function has no business with, as one string.
func ambientOf(in *vmcommon.ContractCallInput) string {
	s := fmt.Sprintf("%d|%x|%v|%x|%v|%x|%v|%v|%v|%d", in.GasPrice, in.OriginalTxHash, in.OriginalTxHash == nil, in.CurrentTxHash, in.CurrentTxHash == nil, in.PrevTxHash, in.PrevTxHash == nil, in.AllowInitFunction, in.ESDTTransfers == nil, len(in.ESDTTransfers))
	for _, t := range in.ESDTTransfers {
		if t == nil {
			s += "|nil"
			continue
		}
		s += fmt.Sprintf("|%x/%v/%d/%d", t.ESDTTokenName, t.ESDTValue, t.ESDTTokenNonce, t.ESDTTokenType)
	}
	return s
}

// ---------------------------------------------------------------------------------------------
// Tokenizer (the harness's own)

func Tokenize(data string) (string, [][]byte, error) {
	parts := strings.Split(data, "@")
	if len(parts) == 0 || parts[0] == "" {
		return "", nil, fmt.Errorf("empty function")
	}
	var args [][]byte
	for _, p := range parts[1:] {
		b, err := hex.DecodeString(p)
		if err != nil {
			return "", nil, fmt.Errorf("bad hex %q", p)
		}
		args = append(args, b)
	}
	return parts[0], args, nil
}

func BuildData(fn string, args [][]byte) string {
	s := fn
	for _, a := range args {
		s += "@" + hex.EncodeToString(a)
	}
	return s
}

// ---------------------------------------------------------------------------------------------
// Moves named by a transfer call

// SenderMoves parses the token list of a sender-form transfer call. ok=false when the call is not
// well-formed enough to name a token list.
func SenderMoves(c *Call) (moves []TokenMove, dst []byte, ok bool) {
	a := c.Args
	switch c.Func {
	case vmcommon.BuiltInFunctionESDTTransfer:
		if len(a) < 2 {
			return nil, nil, false
		}
		return []TokenMove{{TokenID: a[0], Nonce: 0, Qty: new(big.Int).SetBytes(a[1])}}, c.Recipient, true
	case vmcommon.BuiltInFunctionESDTNFTTransfer:
		if len(a) < 4 {
			return nil, nil, false
		}
		return []TokenMove{{TokenID: a[0], Nonce: new(big.Int).SetBytes(a[1]).Uint64(), Qty: new(big.Int).SetBytes(a[2])}}, a[3], true
	case vmcommon.BuiltInFunctionMultiESDTNFTTransfer:
		if len(a) < 2 {
			return nil, nil, false
		}
		nb := new(big.Int).SetBytes(a[1])
		if !nb.IsUint64() || nb.Uint64() == 0 || nb.Uint64() > uint64(len(a)) {
			return nil, nil, false
		}
		n := int(nb.Uint64())
		if len(a) < 2+3*n {
			return nil, nil, false
		}
		for i := 0; i < n; i++ {
			moves = append(moves, TokenMove{TokenID: a[2+3*i], Nonce: new(big.Int).SetBytes(a[3+3*i]).Uint64(), Qty: new(big.Int).SetBytes(a[4+3*i])})
		}
		return moves, a[0], true
	}
	return nil, nil, false
}

// transferPartLen: number of leading arguments that form the transfer part of a destination-form
// message (what a refund carries).
func transferPartLen(fn string, args [][]byte) int {
	switch fn {
	case vmcommon.BuiltInFunctionESDTTransfer:
		return 2
	case vmcommon.BuiltInFunctionESDTNFTTransfer:
		return 4
	case vmcommon.BuiltInFunctionMultiESDTNFTTransfer:
		if len(args) == 0 {
			return 0
		}
		nb := new(big.Int).SetBytes(args[0])
		if !nb.IsUint64() || nb.Uint64() > uint64(len(args)) {
			return len(args)
		}
		return 3*int(nb.Uint64()) + 1
	}
	return len(args)
}

// ---------------------------------------------------------------------------------------------
// Execution

func (n *Node) shardOf(addr []byte) uint32 { return world.ComputeShard(n.W.NumShards, addr) }

// Exec runs the sender leg of a transaction-originated call (or, for calls from the ESDT system
// contract, the only leg: on the recipient's shard with no sender account).
func (n *Node) Exec(c Call) *Leg {
	callerShard := n.shardOf(c.Caller)
	if callerShard >= n.W.NumShards {
		// caller on the metachain: executes on the recipient's shard as a destination leg
		dstShard := n.shardOf(c.Recipient)
		if dstShard >= n.W.NumShards {
			dstShard = 0
		}
		return n.run(SideDest, dstShard, c, nil, nil, n.W.Shards[dstShard].Get(c.Recipient))
	}
	sh := n.W.Shards[callerShard]
	snd := sh.Get(c.Caller)
	var dst *world.Account
	if n.shardOf(c.Recipient) == callerShard {
		dst = sh.Get(c.Recipient)
	}
	return n.run(SideSender, callerShard, c, nil, snd, dst)
}

// ExecAt runs a system-contract-originated call on a given shard (pause / unpause are
// broadcast to every shard and executed at that shard's own system account).
func (n *Node) ExecAt(shard uint32, c Call) *Leg {
	return n.run(SideDest, shard, c, nil, nil, n.W.Shards[shard].Get(c.Recipient))
}

// ExecSenderAt runs a sender leg on a given shard whatever the addresses map to (used for the
// metachain-node configuration): the sender account is taken from that shard, the destination
// account too when the shard's coordinator says it is local.
func (n *Node) ExecSenderAt(shard uint32, c Call, dstLocal bool) *Leg {
	sh := n.W.Shards[shard]
	snd := sh.Get(c.Caller)
	var dst *world.Account
	if bytes.Equal(c.Caller, c.Recipient) {
		dst = snd
	} else if dstLocal {
		dst = sh.Get(c.Recipient)
	}
	return n.run(SideSender, shard, c, nil, snd, dst)
}

// Deliver executes the destination leg of in-flight message i (index into Pool) and removes it.
func (n *Node) Deliver(i int) *Leg {
	m := n.Pool[i]
	n.Pool = append(n.Pool[:i:i], n.Pool[i+1:]...)
	l := n.DeliverMsg(m)
	if l != nil && l.Aborted {
		n.Pool = append(n.Pool, m) // processed again later
	}
	return l
}

// DeliverMsg executes a message without touching the pool (used for duplicates).
func (n *Node) DeliverMsg(m *Message) *Leg {
	dstShard := n.shardOf(m.To)
	if dstShard >= n.W.NumShards {
		return nil
	}
	if m.Raw != nil && string(m.Raw) != m.rawAt {
		// the memory the library returned was written to after the call returned
		m.ChangedInFlight = true
		m.Data = string(m.Raw)
		m.rawAt = m.Data
		f, a, err := Tokenize(m.Data)
		m.ParseErr = ""
		if err != nil {
			m.ParseErr = err.Error()
		}
		m.Func, m.Args = f, a
	}
	c := Call{Func: m.Func, Caller: m.From, Recipient: m.To, Args: m.Args, Gas: m.Gas, GasLocked: m.GasLocked, CallType: m.CallType, RetAfterErr: m.RetAfterErr}
	return n.run(SideDest, dstShard, c, m, nil, n.W.Shards[dstShard].Get(m.To))
}

func (n *Node) run(side int, shard uint32, c Call, msg *Message, snd, dst *world.Account) *Leg {
	w := n.W
	sh := w.Shards[shard]
	n.seq++
	leg := &Leg{Seq: n.seq, Side: side, Shard: shard, Call: c, Msg: msg, SndPresent: snd != nil, DstPresent: dst != nil}
	if msg != nil {
		leg.Moves = msg.Moves
		leg.LogicalDst = msg.To
	} else if IsTransferFunc(c.Func) {
		if mv, d, ok := SenderMoves(&c); ok {
			leg.Moves, leg.LogicalDst = mv, d
		}
	}
	fn, err := sh.Container.Get(c.Func)
	if err != nil {
		leg.NoFunc = true
		leg.Err = err
		n.notify(leg)
		return leg
	}
	if !fn.IsActive() {
		leg.Inactive = true
		leg.Err = fmt.Errorf("function not active")
		n.notify(leg)
		return leg
	}
	leg.Pre = w.Snapshot()
	if n.RecordPayable {
		leg.PayableAt = map[string]int{}
		for k, v := range w.Payable {
			leg.PayableAt[k] = v
		}
	}
	if n.PreRun != nil {
		n.PreRun(leg.Seq)
	}
	bi := buildInput(c)
	leg.Input = bi.in
	firedBefore := 0
	if w.Fault != nil {
		firedBefore = len(w.Fault.Fired)
	}
	w.Log = w.Log[:0]
	w.Logging = true
	w.CurFunc = c.Func
	{
		var owned []*world.Account
		if snd != nil {
			owned = append(owned, snd)
		}
		if dst != nil {
			owned = append(owned, dst)
		}
		sh.BeginLeg(owned...)
	}
	var a0 uint64
	tick.Legs.Add(1)
	d0 := tick.Dumps.Load()
	if n.MeasureAlloc {
		a0 = heapAllocs()
	}
	func() {
		defer func() {
			if r := recover(); r != nil {
				leg.Panic = fmt.Sprint(r)
				leg.Stack = string(debug.Stack())
				leg.Out, leg.Err = nil, fmt.Errorf("panic: %v", r)
			}
		}()
		var s, d vmcommon.UserAccountHandler
		if snd != nil {
			s = snd
		}
		if dst != nil {
			d = dst
		}
		leg.Out, leg.Err = fn.ProcessBuiltinFunction(s, d, bi.in)
	}()
	if n.MeasureAlloc {
		leg.AllocBytes = heapAllocs() - a0
		if tick.Dumps.Load() != d0 {
			leg.AllocBytes = 0 // the stall detector allocated meanwhile: no verdict for this call
		}
	}
	tick.Legs.Add(1)
	w.Logging = false
	leg.Deps = append([]world.DepCall{}, w.Log...)
	leg.InputMut = bi.mutated()
	var owned []*world.Account
	if snd != nil {
		owned = append(owned, snd)
	}
	if dst != nil {
		owned = append(owned, dst)
	}
	discarded := sh.EndLeg(owned...)

	leg.OK = leg.Err == nil && leg.Panic == "" && leg.Out != nil
	leg.FaultFired = w.Fault != nil && len(w.Fault.Fired) > firedBefore
	if n.AbortOnFault && leg.FaultFired && !leg.OK && leg.Panic == "" {
		leg.Aborted = true
		w.Restore(leg.Pre)
		n.notify(leg)
		return leg
	}
	if leg.OK {
		for _, addr := range discarded {
			w.RestoreAccount(leg.Pre, shard, addr)
		}
		leg.Discarded = discarded
		leg.Diff = w.Diff(leg.Pre)
		n.emit(leg, snd, dst)
	} else {
		if n.KeepRawDiff {
			leg.RawDiff = w.Diff(leg.Pre)
		}
		w.Restore(leg.Pre)
		if msg != nil && len(msg.Moves) > 0 && !msg.IsRefund && msg.Kind == MsgContinuation {
			n.refund(leg, msg)
		}
	}
	n.notify(leg)
	if !n.NoScribble {
		scribbleOutput(leg.Out)
	}
	return leg
}

// scribbleOutput: what a call returns belongs to the caller, who goes on to update it in place (the
// VM merges output accounts into one another). After the observers have seen the leg every big
// integer of the output is changed; a value shared with the library's own state would carry the
// change into later calls.
// ScribbleOutput is scribbleOutput for monitors that re-execute a call themselves.
func ScribbleOutput(o *vmcommon.VMOutput) { scribbleOutput(o) }

func scribbleOutput(o *vmcommon.VMOutput) {
	if o == nil {
		return
	}
	bump := func(v *big.Int) {
		if v != nil {
			v.Add(v, big.NewInt(0x5c21bb1e))
		}
	}
	bump(o.GasRefund)
	for _, oa := range o.OutputAccounts {
		if oa == nil {
			continue
		}
		bump(oa.Balance)
		bump(oa.BalanceDelta)
		for i := range oa.OutputTransfers {
			bump(oa.OutputTransfers[i].Value)
		}
	}
}

// heapAllocs: cumulative bytes allocated. ReadMemStats flushes the per-P caches, so the delta
// around a call is exact (the cheaper runtime/metrics counter is only updated in bursts).
func heapAllocs() uint64 {
	var ms runtime.MemStats
	runtime.ReadMemStats(&ms)
	return ms.TotalAlloc
}

// Replay re-executes a recorded leg (same side, shard, call, account-presence pattern) on this
// node's world, without touching the pool of the original node.
func (n *Node) Replay(l *Leg) *Leg {
	sh := n.W.Shards[l.Shard]
	var snd, dst *world.Account
	if l.SndPresent {
		snd = sh.Get(l.Call.Caller)
	}
	if l.DstPresent {
		dst = sh.Get(l.Call.Recipient)
	}
	c := l.Call
	c.Args = cloneArgs(c.Args)
	var msg *Message
	if l.Msg != nil {
		m := *l.Msg
		msg = &m
	}
	return n.run(l.Side, l.Shard, c, msg, snd, dst)
}

func (n *Node) notify(l *Leg) {
	for _, o := range n.Observers {
		o(n, l)
	}
}

func (n *Node) isBuiltIn(name string) bool {
	_, err := n.W.Shards[0].Container.Get(name)
	return err == nil
}

// emit turns the output transfers of a successful leg into messages.
func (n *Node) emit(leg *Leg, snd, dst *world.Account) {
	c := leg.Call
	from := c.Caller
	if snd == nil && dst != nil {
		from = dst.Addr
	}
	origin := &leg.Call
	if leg.Msg != nil && leg.Msg.Origin != nil {
		origin = leg.Msg.Origin
	}
	dataEmitted := false
	// deterministic order over output accounts
	keys := make([]string, 0, len(leg.Out.OutputAccounts))
	for k := range leg.Out.OutputAccounts {
		keys = append(keys, k)
	}
	sortStrings(keys)
	for _, k := range keys {
		oa := leg.Out.OutputAccounts[k]
		if oa == nil {
			continue
		}
		for _, ot := range oa.OutputTransfers {
			if len(ot.Data) == 0 {
				continue
			}
			dataEmitted = true
			n.msgID++
			m := &Message{ID: n.msgID, Data: string(ot.Data), From: append([]byte{}, from...), To: append([]byte{}, oa.Address...), Gas: ot.GasLimit, GasLocked: ot.GasLocked,
				CallType: ot.CallType, Origin: origin, OriginLeg: leg.Seq, Raw: ot.Data, rawAt: string(ot.Data)}
			f, a, err := Tokenize(m.Data)
			if err != nil {
				m.ParseErr = err.Error()
			}
			m.Func, m.Args = f, a
			toShard := n.shardOf(m.To)
			switch {
			case toShard >= n.W.NumShards:
				m.Kind = MsgMeta
			case toShard != leg.Shard && err == nil && n.isBuiltIn(f) && (f == c.Func):
				m.Kind = MsgContinuation
				if leg.Side == SideSender && IsTransferFunc(c.Func) {
					m.Moves = leg.Moves
				}
			default:
				m.Kind = MsgAttached
			}
			leg.Emitted = append(leg.Emitted, m)
			if m.Kind == MsgContinuation {
				n.Pool = append(n.Pool, m)
			}
		}
	}
	// the transaction itself travels to the destination shard - only a user's transaction does: a
	// call made by a contract reaches another shard solely through the output transfers it emits
	if leg.Side == SideSender && !dataEmitted && !bytes.Equal(c.Caller, c.Recipient) && !vmcommon.IsSmartContractAddress(c.Caller) {
		rs := n.shardOf(c.Recipient)
		if rs < n.W.NumShards && rs != leg.Shard {
			n.msgID++
			m := &Message{ID: n.msgID, Data: BuildData(c.Func, c.Args), Func: c.Func, Args: cloneArgs(c.Args), From: append([]byte{}, c.Caller...), To: append([]byte{}, c.Recipient...),
				Gas: c.Gas, GasLocked: c.GasLocked, CallType: c.CallType, Kind: MsgContinuation, TxItself: true, Origin: origin, OriginLeg: leg.Seq}
			if IsTransferFunc(c.Func) {
				m.Moves = leg.Moves
			}
			leg.Emitted = append(leg.Emitted, m)
			n.Pool = append(n.Pool, m)
		}
	}
}

func (n *Node) refund(leg *Leg, msg *Message) {
	if n.shardOf(msg.From) >= n.W.NumShards {
		return // the origin lives on the metachain: its refund is not executed by a built-in function here
	}
	k := transferPartLen(msg.Func, msg.Args)
	if k > len(msg.Args) {
		k = len(msg.Args)
	}
	ct := vmcommon.DirectCall
	if vmcommon.IsSmartContractAddress(msg.From) {
		ct = vmcommon.AsynchronousCallBack
	}
	n.msgID++
	r := &Message{ID: n.msgID, Func: msg.Func, Args: cloneArgs(msg.Args[:k]), From: append([]byte{}, msg.To...), To: append([]byte{}, msg.From...),
		Gas: msg.Gas, GasLocked: 0, CallType: ct, RetAfterErr: true, Kind: MsgContinuation, IsRefund: true, RefundOf: msg.ID, Origin: msg.Origin, Moves: msg.Moves, OriginLeg: leg.Seq}
	r.Data = BuildData(r.Func, r.Args)
	leg.Emitted = append(leg.Emitted, r)
	n.Pool = append(n.Pool, r)
}

func cloneArgs(a [][]byte) [][]byte {
	c := make([][]byte, len(a))
	for i := range a {
		c[i] = append([]byte{}, a[i]...)
	}
	return c
}

func sortStrings(s []string) {
	for i := 1; i < len(s); i++ {
		for j := i; j > 0 && s[j] < s[j-1]; j-- {
			s[j], s[j-1] = s[j-1], s[j]
		}
	}
}

// DrainAll delivers every in-flight message (and the refunds they cause) in pool order.
func (n *Node) DrainAll() {
	for guard := 0; len(n.Pool) > 0 && guard < 10000; guard++ {
		n.Deliver(0)
	}
}

// Consumed returns the gas a successful leg consumed: provided − remaining − forwarded.
func Consumed(l *Leg) (uint64, bool) {
	if !l.OK {
		return 0, false
	}
	fw := Forwarded(l.Out)
	if l.Out.GasRemaining > l.Call.Gas || fw > l.Call.Gas-l.Out.GasRemaining {
		return 0, false
	}
	return l.Call.Gas - l.Out.GasRemaining - fw, true
}

func Forwarded(out *vmcommon.VMOutput) uint64 {
	var fw uint64
	for _, oa := range out.OutputAccounts {
		if oa == nil {
			continue
		}
		for _, ot := range oa.OutputTransfers {
			fw += ot.GasLimit
		}
	}
	return fw
}
