// Package tick holds two process-wide counters shared by the driver (internal/node) and the
// worker's stall detector (internal/harness), which must not import one another.
package tick

import "sync/atomic"

// Legs is bumped by the driver when a call into the library starts and again when it has returned.
var Legs atomic.Uint64

// Dumps is bumped by the stall detector before it takes a goroutine dump (which allocates on
// another goroutine): a call during which Dumps moved carries no allocation verdict.
var Dumps atomic.Uint64
