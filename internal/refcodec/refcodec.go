// Package refcodec is an independent encoder/decoder for data/esdt/proto/esdt.proto and for the
// documented amount format (one sign byte followed by the big-endian magnitude). It is written
// from the .proto file, not from esdt.pb.go, and is validated against the library in C14.
package refcodec

import (
	"bytes"
	"errors"
	"math/big"
)

type MetaData struct {
	Nonce      uint64
	Name       []byte
	Creator    []byte
	Royalties  uint32
	Hash       []byte
	URIs       [][]byte
	Attributes []byte
}

type Token struct {
	Type       uint32
	Value      *big.Int // nil = absent / single 00 byte
	HasValue   bool     // field 2 present on the wire
	Properties []byte
	Meta       *MetaData
	Reserved   []byte
}

var ErrMalformed = errors.New("refcodec: malformed")

// ---- amount codec ----

// EncodeAmount: nil -> 00; zero -> 00 00; otherwise sign byte (0/1) then big-endian magnitude.
func EncodeAmount(v *big.Int) []byte {
	if v == nil {
		return []byte{0}
	}
	mag := v.Bytes()
	if len(mag) == 0 {
		return []byte{0, 0}
	}
	sign := byte(0)
	if v.Sign() < 0 {
		sign = 1
	}
	return append([]byte{sign}, mag...)
}

// DecodeAmount is the lenient reading the format admits: empty -> error, 1 byte -> nil.
func DecodeAmount(b []byte) (*big.Int, error) {
	if len(b) == 0 {
		return nil, ErrMalformed
	}
	if len(b) == 1 {
		return nil, nil
	}
	v := new(big.Int).SetBytes(b[1:])
	switch b[0] {
	case 0:
	case 1:
		v.Neg(v)
	default:
		if v.Sign() == 0 && len(b) == 2 {
			return v, nil
		}
		return nil, ErrMalformed
	}
	return v, nil
}

// ---- protobuf primitives ----

func putVarint(buf *bytes.Buffer, v uint64) {
	for v >= 0x80 {
		buf.WriteByte(byte(v) | 0x80)
		v >>= 7
	}
	buf.WriteByte(byte(v))
}

func putBytesField(buf *bytes.Buffer, field int, b []byte) {
	putVarint(buf, uint64(field<<3|2))
	putVarint(buf, uint64(len(b)))
	buf.Write(b)
}

func putVarintField(buf *bytes.Buffer, field int, v uint64) {
	putVarint(buf, uint64(field<<3|0))
	putVarint(buf, v)
}

func getVarint(b []byte) (uint64, int, error) {
	var v uint64
	for i := 0; i < len(b); i++ {
		if i >= 10 {
			return 0, 0, ErrMalformed
		}
		v |= uint64(b[i]&0x7f) << (7 * uint(i))
		if b[i] < 0x80 {
			return v, i + 1, nil
		}
	}
	return 0, 0, ErrMalformed
}

// ---- messages ----

func EncodeMeta(m *MetaData) []byte {
	var buf bytes.Buffer
	if m.Nonce != 0 {
		putVarintField(&buf, 1, m.Nonce)
	}
	if len(m.Name) > 0 {
		putBytesField(&buf, 2, m.Name)
	}
	if len(m.Creator) > 0 {
		putBytesField(&buf, 3, m.Creator)
	}
	if m.Royalties != 0 {
		putVarintField(&buf, 4, uint64(m.Royalties))
	}
	if len(m.Hash) > 0 {
		putBytesField(&buf, 5, m.Hash)
	}
	for _, u := range m.URIs {
		putBytesField(&buf, 6, u)
	}
	if len(m.Attributes) > 0 {
		putBytesField(&buf, 7, m.Attributes)
	}
	return buf.Bytes()
}

// EncodeToken: the amount field (2) is always written (custom non-nullable type).
func EncodeToken(t *Token) []byte {
	var buf bytes.Buffer
	if t.Type != 0 {
		putVarintField(&buf, 1, uint64(t.Type))
	}
	putBytesField(&buf, 2, EncodeAmount(t.Value))
	if len(t.Properties) > 0 {
		putBytesField(&buf, 3, t.Properties)
	}
	if t.Meta != nil {
		putBytesField(&buf, 4, EncodeMeta(t.Meta))
	}
	if len(t.Reserved) > 0 {
		putBytesField(&buf, 5, t.Reserved)
	}
	return buf.Bytes()
}

func EncodeRoles(roles [][]byte) []byte {
	var buf bytes.Buffer
	for _, r := range roles {
		putBytesField(&buf, 1, r)
	}
	return buf.Bytes()
}

type field struct {
	num  int
	wt   int
	v    uint64
	data []byte
}

func fields(b []byte) ([]field, error) {
	var out []field
	for len(b) > 0 {
		tag, n, err := getVarint(b)
		if err != nil {
			return nil, err
		}
		b = b[n:]
		f := field{num: int(tag >> 3), wt: int(tag & 7)}
		if f.num <= 0 {
			return nil, ErrMalformed
		}
		switch f.wt {
		case 0:
			v, n, err := getVarint(b)
			if err != nil {
				return nil, err
			}
			f.v = v
			b = b[n:]
		case 1:
			if len(b) < 8 {
				return nil, ErrMalformed
			}
			b = b[8:]
		case 2:
			l, n, err := getVarint(b)
			if err != nil {
				return nil, err
			}
			b = b[n:]
			if l > uint64(len(b)) {
				return nil, ErrMalformed
			}
			f.data = b[:l]
			b = b[l:]
		case 5:
			if len(b) < 4 {
				return nil, ErrMalformed
			}
			b = b[4:]
		default:
			return nil, ErrMalformed
		}
		out = append(out, f)
	}
	return out, nil
}

func cp(b []byte) []byte {
	c := make([]byte, len(b))
	copy(c, b)
	return c
}

func DecodeMeta(b []byte) (*MetaData, error) {
	fs, err := fields(b)
	if err != nil {
		return nil, err
	}
	m := &MetaData{}
	for _, f := range fs {
		switch f.num {
		case 1:
			if f.wt != 0 {
				return nil, ErrMalformed
			}
			m.Nonce = f.v
		case 2:
			if f.wt != 2 {
				return nil, ErrMalformed
			}
			m.Name = cp(f.data)
		case 3:
			if f.wt != 2 {
				return nil, ErrMalformed
			}
			m.Creator = cp(f.data)
		case 4:
			if f.wt != 0 {
				return nil, ErrMalformed
			}
			m.Royalties = uint32(f.v)
		case 5:
			if f.wt != 2 {
				return nil, ErrMalformed
			}
			m.Hash = cp(f.data)
		case 6:
			if f.wt != 2 {
				return nil, ErrMalformed
			}
			m.URIs = append(m.URIs, cp(f.data))
		case 7:
			if f.wt != 2 {
				return nil, ErrMalformed
			}
			m.Attributes = cp(f.data)
		}
	}
	return m, nil
}

func DecodeToken(b []byte) (*Token, error) {
	fs, err := fields(b)
	if err != nil {
		return nil, err
	}
	t := &Token{}
	for _, f := range fs {
		switch f.num {
		case 1:
			if f.wt != 0 {
				return nil, ErrMalformed
			}
			t.Type = uint32(f.v)
		case 2:
			if f.wt != 2 {
				return nil, ErrMalformed
			}
			v, err := DecodeAmount(f.data)
			if err != nil {
				return nil, err
			}
			t.Value = v
			t.HasValue = true
		case 3:
			if f.wt != 2 {
				return nil, ErrMalformed
			}
			t.Properties = cp(f.data)
		case 4:
			if f.wt != 2 {
				return nil, ErrMalformed
			}
			m, err := DecodeMeta(f.data)
			if err != nil {
				return nil, err
			}
			// proto3 merges repeated occurrences of an embedded message; the library never
			// writes more than one, so the last one wins here.
			t.Meta = m
		case 5:
			if f.wt != 2 {
				return nil, ErrMalformed
			}
			t.Reserved = cp(f.data)
		}
	}
	return t, nil
}

func DecodeRoles(b []byte) ([][]byte, error) {
	fs, err := fields(b)
	if err != nil {
		return nil, err
	}
	var roles [][]byte
	for _, f := range fs {
		if f.num == 1 {
			if f.wt != 2 {
				return nil, ErrMalformed
			}
			roles = append(roles, cp(f.data))
		}
	}
	return roles, nil
}

// ---- helpers used by monitors ----

func MetaEqual(a, b *MetaData) bool {
	if a == nil || b == nil {
		return a == b
	}
	if a.Nonce != b.Nonce || a.Royalties != b.Royalties || !bytes.Equal(a.Name, b.Name) || !bytes.Equal(a.Creator, b.Creator) ||
		!bytes.Equal(a.Hash, b.Hash) || !bytes.Equal(a.Attributes, b.Attributes) || len(a.URIs) != len(b.URIs) {
		return false
	}
	for i := range a.URIs {
		if !bytes.Equal(a.URIs[i], b.URIs[i]) {
			return false
		}
	}
	return true
}

func (m *MetaData) Clone() *MetaData {
	if m == nil {
		return nil
	}
	c := *m
	c.Name, c.Creator, c.Hash, c.Attributes = cp(m.Name), cp(m.Creator), cp(m.Hash), cp(m.Attributes)
	c.URIs = nil
	for _, u := range m.URIs {
		c.URIs = append(c.URIs, cp(u))
	}
	return &c
}

// Frozen reports the frozen bit of a 2-byte Properties field.
func (t *Token) Frozen() bool {
	return len(t.Properties) == 2 && t.Properties[0]&1 != 0
}

// Amount returns the value or zero when absent.
func (t *Token) Amount() *big.Int {
	if t == nil || t.Value == nil {
		return new(big.Int)
	}
	return t.Value
}
