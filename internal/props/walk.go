package props

import (
	"bytes"
	"fmt"
	"math/big"
	"sort"
	"strings"
	"verif/internal/refcodec"

	vmcommon "github.com/ElrondNetwork/elrond-vm-common"
	"verif/internal/gen"
	"verif/internal/harness"
	"verif/internal/node"
	"verif/internal/world"
)

// W-walk: seeded random histories over a small universe, with honest users, role holders, the
// system contract obeying its discipline (T5) and adversaries that call anything with anything.

type WalkOpts struct {
	Shards        uint32
	Steps         int
	Hostile       int // percent of steps made by the adversary
	GasMap        map[string]map[string]uint64
	NoSysDest     bool // keep the system account out as a transfer destination (T7)
	MeasureAll    bool
	RecordPayable bool
	Reconfigure   bool // gas schedule changes and epoch notifications among the steps
	FlipPayable   bool // the payability oracle's answer for a contract changes among the steps
	PadNumbers    bool // numeric arguments of transfer calls get leading zero bytes now and then
	Faults        int  // percent of legs during which one injectable dependency call fails
	Reencode      bool // stored entries are rewritten, between legs, into equivalent representations
	OnLeg         func(u *gen.Universe, m *Mon, l *node.Leg)
	Setup         func(u *gen.Universe, m *Mon)
}

type Walk struct {
	seen      []*node.Message // destination-form messages seen so far (material for forgeries)
	U         *gen.Universe
	M         *Mon
	R         *harness.Rand
	O         WalkOpts
	creator   map[string][]byte // token -> current create-role holder (sys actor's book-keeping)
	handing   map[string]bool
	flipR     *harness.Rand                // side stream for payability flips
	encR      *harness.Rand                // side stream for re-encodings
	lastSched map[string]map[string]uint64 // the last schedule the factories accepted (reconfigure)
}

var amountsPool = []*big.Int{big.NewInt(1), big.NewInt(2), big.NewInt(7), big.NewInt(50), big.NewInt(1000), gen.Pow2(64), new(big.Int).Add(gen.Pow2(70), big.NewInt(12345)),
	big.NewInt(255), big.NewInt(256), new(big.Int).Sub(gen.Pow2(63), big.NewInt(1)), gen.Pow2(63), new(big.Int).Sub(gen.Pow2(64), big.NewInt(1)), new(big.Int).Add(gen.Pow2(64), big.NewInt(1)), gen.Pow2(128)}

func NewWalk(r *harness.Rand, rep *harness.Reporter, o WalkOpts, enabled ...string) *Walk {
	if o.Shards == 0 {
		// mostly 1-3 shards; one walk in six runs on a network of 4, 5 or 8
		o.Shards = []uint32{1, 2, 3, 1, 2, 3, 1, 2, 3, 1, 2, 3, 1, 2, 3, 4, 5, 8}[r.Intn(18)]
	}
	u, err := gen.NewUniverse(r, gen.UniOpts{Shards: o.Shards, Users: 4 + r.Intn(2), Contracts: 2 + r.Intn(2), GasMap: o.GasMap, NameChange: r.Bool()})
	if err != nil {
		panic(err)
	}
	m := NewMon(rep, o.Shards, enabled...)
	for _, t := range u.Tokens {
		m.Registered = append(m.Registered, t.ID)
	}
	m.Attach(u.N)
	u.N.RecordPayable = o.RecordPayable
	w := &Walk{U: u, M: m, R: r, O: o, creator: map[string][]byte{}, handing: map[string]bool{}, flipR: r.Side(0x666c6970), encR: r.Side(0x656e63)}
	if o.OnLeg != nil {
		u.N.Observers = append(u.N.Observers, func(n *node.Node, l *node.Leg) { o.OnLeg(u, m, l) })
	}
	u.N.Observers = append(u.N.Observers, func(n *node.Node, l *node.Leg) {
		for _, e := range l.Emitted {
			if e.Kind == node.MsgContinuation && len(w.seen) < 64 {
				w.seen = append(w.seen, e)
			}
		}
	})
	w.setup()
	if o.Setup != nil {
		o.Setup(u, m)
	}
	if o.Faults > 0 {
		fr := r.Side(0x6661756c74)
		inj := injectable(u.W)
		u.N.AbortOnFault = true
		u.N.PreRun = func(int) {
			u.W.Fault = nil
			if fr.Chance(o.Faults) {
				u.W.Fault = &world.FaultPlan{FailAt: 1 + fr.Intn(7), Injectable: inj, Err: world.FaultErrors[fr.Intn(len(world.FaultErrors))]}
			}
		}
	}
	return w
}

func (w *Walk) setup() {
	u, r := w.U, w.R
	// fungible holdings
	for _, t := range u.Tokens[:2] {
		for _, a := range u.Actors {
			if r.Chance(65) {
				gen.Must(u.Issue(a, t.ID, amountsPool[r.Intn(len(amountsPool))]), "issue")
			}
		}
	}
	// local mint / burn roles
	gen.Must(u.SetRoles(u.Users[0], u.Tokens[0].ID, RoleMint, RoleBurn), "roles")
	gen.Must(u.SetRoles(u.Contracts[0], u.Tokens[1].ID, RoleMint, RoleBurn), "roles")
	// NFT roles: one creator per token
	sftCreator := u.Users[1]
	nftCreator := u.Actors[r.Intn(len(u.Actors))]
	gen.Must(u.SetRoles(sftCreator, u.Tokens[2].ID, RoleCreate, RoleAddQty, RoleNFTBurn, RoleAddURI, RoleUpdAttr), "roles")
	gen.Must(u.SetRoles(nftCreator, u.Tokens[3].ID, RoleCreate, RoleNFTBurn, RoleAddURI, RoleUpdAttr), "roles")
	w.creator[string(u.Tokens[2].ID)] = sftCreator
	w.creator[string(u.Tokens[3].ID)] = nftCreator
	if r.Chance(35) {
		// counters far from zero (storage and shadow alike), so that multi-byte nonces and the
		// 8/16/32/63-bit boundaries are crossed by ordinary creates
		for ti, who := range [][]byte{sftCreator, nftCreator} {
			v := []uint64{254, 65534, 1<<32 - 2, 1<<63 - 2, 1<<63 + 7}[r.Intn(5)]
			tok := u.Tokens[2+ti].ID
			u.W.Account(who).Poke([]byte(node.NoncePrefix+string(tok)), gen.U64(v))
			w.M.S.Counter[rkey{string(who), string(tok)}] = v
			w.M.S.MaxIssued[string(tok)] = v
		}
	}
	for i := 0; i < 2+r.Intn(3); i++ {
		w.opCreate()
	}
}

func (w *Walk) metaArgs() [][]byte {
	r := w.R
	sz := func() int {
		switch r.Intn(6) {
		case 0:
			return 0
		case 1:
			return 1
		case 2:
			return 200
		default:
			return 3 + r.Intn(20)
		}
	}
	roy := []int64{0, 1, 2500, 9999, 10000}[r.Intn(5)]
	args := [][]byte{r.Bytes(sz()), gen.Big(roy), r.Bytes(sz()), r.Bytes(sz())}
	for i := 0; i < 1+r.Intn(3); i++ {
		args = append(args, r.Bytes(sz()))
	}
	return args
}

func (w *Walk) opCreate() *node.Leg {
	u, r := w.U, w.R
	t := u.Tokens[2+r.Intn(2)]
	who := w.creator[string(t.ID)]
	if r.Chance(8) {
		who = u.Pick(u.Actors) // likely unauthorised
	}
	qty := int64(1)
	if t.Kind == gen.KindSFT {
		qty = []int64{1, 2, 5, 100}[r.Intn(4)]
	} else if r.Chance(5) {
		qty = 3 // needs the add-quantity role which the NFT creator lacks
	}
	ma := w.metaArgs()
	args := append([][]byte{t.ID, gen.Big(qty)}, ma...)
	return u.N.Exec(gen.SelfCall(FNFTCreate, who, gen.BigGas, args...))
}

func (w *Walk) pickAmount(bal *big.Int) *big.Int {
	r := w.R
	if r.Chance(15) {
		a := amountsPool[r.Intn(len(amountsPool))]
		if a.Cmp(bal) <= 0 || r.Chance(20) {
			return new(big.Int).Set(a)
		}
	}
	switch r.Intn(10) {
	case 0:
		return new(big.Int).Set(bal)
	case 1:
		return new(big.Int).Add(bal, big.NewInt(1))
	case 2:
		return big.NewInt(0)
	case 3:
		return big.NewInt(1)
	default:
		if bal.Sign() == 0 {
			return big.NewInt(1)
		}
		// a fraction of the balance
		d := big.NewInt(int64(2 + r.Intn(5)))
		q := new(big.Int).Div(bal, d)
		if q.Sign() == 0 {
			q.SetInt64(1)
		}
		return q
	}
}

func (w *Walk) attached() [][]byte {
	r := w.R
	switch r.Intn(4) {
	case 0:
		return [][]byte{[]byte("doWork")}
	case 1:
		return [][]byte{[]byte("accept"), {}, {0, 1}, r.Bytes(9)}
	}
	return nil
}

func (w *Walk) callType(caller []byte) vmcommon.CallType {
	r := w.R
	if !vmcommon.IsSmartContractAddress(caller) || r.Chance(60) {
		return vmcommon.DirectCall
	}
	return []vmcommon.CallType{vmcommon.AsynchronousCall, vmcommon.AsynchronousCallBack, vmcommon.ESDTTransferAndExecute}[r.Intn(3)]
}

func (w *Walk) pickDest(from []byte) []byte {
	u, r := w.U, w.R
	for i := 0; i < 5; i++ {
		d := u.Pick(u.Actors)
		if !bytes.Equal(d, from) {
			return d
		}
	}
	_ = r
	for _, d := range u.Actors {
		if !bytes.Equal(d, from) {
			return d
		}
	}
	return u.Actors[0]
}

func (w *Walk) opTransfer() *node.Leg {
	u, r := w.U, w.R
	from := u.Pick(u.Actors)
	hs := u.Holdings(from)
	if len(hs) == 0 {
		return nil
	}
	to := w.pickDest(from)
	selfXfer := r.Chance(6)
	var extra [][]byte
	if r.Chance(35) {
		extra = w.attached()
	}
	ct := w.callType(from)
	var c node.Call
	switch r.Intn(3) {
	case 0: // single fungible
		var f []gen.Holding
		for _, h := range hs {
			if h.Nonce == 0 {
				f = append(f, h)
			}
		}
		if len(f) == 0 {
			return nil
		}
		h := f[r.Intn(len(f))]
		if selfXfer {
			to = from // a transfer to oneself: debit and credit hit the same entry
		}
		c = gen.TransferCall(from, to, h.ID, w.pickAmount(h.Amount), gen.BigGas, extra...)
	case 1: // single NFT
		var f []gen.Holding
		for _, h := range hs {
			if h.Nonce != 0 {
				f = append(f, h)
			}
		}
		if len(f) == 0 {
			return nil
		}
		h := f[r.Intn(len(f))]
		c = gen.NFTTransferCall(from, to, h.ID, h.Nonce, w.pickAmount(h.Amount), gen.BigGas, extra...)
	default: // multi
		k := 1 + r.Intn(4)
		var items []gen.Item
		for i := 0; i < k; i++ {
			h := hs[r.Intn(len(hs))]
			amt := w.pickAmount(h.Amount)
			if r.Chance(70) && amt.Cmp(h.Amount) > 0 {
				amt = new(big.Int).Set(h.Amount)
			}
			if r.Chance(80) && amt.Sign() == 0 {
				amt = big.NewInt(1)
			}
			// repeated tokens: keep the total plausible most of the time
			if i > 0 && r.Chance(70) {
				amt = big.NewInt(1)
			}
			items = append(items, gen.Item{ID: h.ID, Nonce: h.Nonce, Qty: amt})
		}
		c = gen.MultiCall(from, to, items, gen.BigGas, extra...)
	}
	c.CallType = ct
	c.GasLocked = uint64(r.Intn(3)) * 1000
	return u.N.Exec(c)
}

func (w *Walk) opDeliver() *node.Leg {
	if len(w.U.N.Pool) == 0 {
		return nil
	}
	return w.U.N.Deliver(w.R.Intn(len(w.U.N.Pool)))
}

func (w *Walk) opSupply() *node.Leg {
	u, r := w.U, w.R
	switch r.Intn(6) {
	case 0, 1: // local mint / burn
		ti := r.Intn(2)
		holder := u.Users[0]
		if ti == 1 {
			holder = u.Contracts[0]
		}
		if r.Chance(12) {
			holder = u.Pick(u.Actors)
		}
		fn := FLocalMint
		amt := amountsPool[r.Intn(len(amountsPool))]
		if r.Bool() {
			fn = FLocalBurn
			amt = w.pickAmount(u.Balance(holder, u.Tokens[ti].ID, 0))
		}
		return u.N.Exec(gen.SelfCall(fn, holder, gen.BigGas, u.Tokens[ti].ID, amt.Bytes()))
	case 2: // ESDTBurn to the system contract
		from := u.Pick(u.Actors)
		t := u.Tokens[r.Intn(2)]
		amt := w.pickAmount(u.Balance(from, t.ID, 0))
		return u.N.Exec(node.Call{Func: FBurn, Caller: from, Recipient: gen.SysSC, Args: [][]byte{t.ID, amt.Bytes()}, Gas: gen.BigGas})
	case 3:
		return w.opCreate()
	default: // add quantity / NFT burn on an existing holding
		who := u.Pick(u.Actors)
		if r.Chance(70) {
			who = w.creator[string(u.Tokens[2+r.Intn(2)].ID)]
		}
		var f []gen.Holding
		for _, h := range u.Holdings(who) {
			if h.Nonce != 0 {
				f = append(f, h)
			}
		}
		if len(f) == 0 {
			return nil
		}
		h := f[r.Intn(len(f))]
		if r.Bool() {
			return u.N.Exec(gen.SelfCall(FNFTAddQty, who, gen.BigGas, h.ID, gen.U64(h.Nonce), amountsPool[r.Intn(5)].Bytes()))
		}
		return u.N.Exec(gen.SelfCall(FNFTBurn, who, gen.BigGas, h.ID, gen.U64(h.Nonce), w.pickAmount(h.Amount).Bytes()))
	}
}

func (w *Walk) opMeta() *node.Leg {
	u, r := w.U, w.R
	who := w.creator[string(u.Tokens[2+r.Intn(2)].ID)]
	if r.Chance(15) {
		who = u.Pick(u.Actors)
	}
	var f []gen.Holding
	for _, h := range u.Holdings(who) {
		if h.Nonce != 0 {
			f = append(f, h)
		}
	}
	if len(f) == 0 {
		return nil
	}
	h := f[r.Intn(len(f))]
	if r.Bool() {
		args := [][]byte{h.ID, gen.U64(h.Nonce)}
		for i := 0; i < 1+r.Intn(3); i++ {
			args = append(args, r.Bytes(r.Intn(30)))
		}
		return u.N.Exec(gen.SelfCall(FNFTAddURI, who, gen.BigGas, args...))
	}
	return u.N.Exec(gen.SelfCall(FNFTUpdAttr, who, gen.BigGas, h.ID, gen.U64(h.Nonce), r.Bytes(r.Intn(40))))
}

// opSystem: the system contract, obeying its discipline.
func (w *Walk) opSystem() *node.Leg {
	u, r := w.U, w.R
	switch r.Intn(10) {
	case 0: // issuance
		return u.Issue(u.Pick(u.Actors), u.Tokens[r.Intn(2)].ID, amountsPool[r.Intn(len(amountsPool))])
	case 1, 2: // freeze / unfreeze a fungible holding
		acc, t := u.Pick(u.Actors), u.Tokens[r.Intn(2)]
		if r.Bool() {
			return u.Freeze(acc, t.ID)
		}
		return u.UnFreeze(acc, t.ID)
	case 3:
		return u.Wipe(u.Pick(u.Actors), u.Tokens[r.Intn(2)].ID)
	case 4, 5: // pause / unpause on one shard
		t := u.Tokens[r.Intn(len(u.Tokens))]
		sh := uint32(r.Intn(int(u.W.NumShards)))
		if r.Chance(45) {
			return u.Pause(sh, t.ID)
		}
		return u.UnPause(sh, t.ID)
	case 6, 7: // set / unset a role (never the create role, never a role already held)
		acc := u.Pick(u.Actors)
		t := u.Tokens[r.Intn(len(u.Tokens))]
		role := gen.AllRoles[r.Intn(len(gen.AllRoles))]
		if role == RoleCreate {
			return nil
		}
		// one to three roles in one call: all held -> unset them, else set the ones not held
		cand := []string{role}
		for k := 0; k < r.Intn(3); k++ {
			x := gen.AllRoles[r.Intn(len(gen.AllRoles))]
			dup := x == RoleCreate
			for _, y := range cand {
				if x == y {
					dup = true
				}
			}
			if !dup {
				cand = append(cand, x)
			}
		}
		var held, notHeld []string
		for _, x := range cand {
			if w.M.S.HasRole(acc, t.ID, x) {
				held = append(held, x)
			} else {
				notHeld = append(notHeld, x)
			}
		}
		if len(notHeld) == 0 || (len(held) > 0 && r.Bool()) {
			// the revocation list may also name roles the account does not hold, anywhere in the list
			if len(notHeld) > 0 && r.Chance(40) {
				pos := r.Intn(len(held) + 1)
				held = append(held[:pos:pos], append([]string{notHeld[0]}, held[pos:]...)...)
			}
			return u.UnsetRoles(acc, t.ID, held...)
		}
		return u.SetRoles(acc, t.ID, notHeld...)
	default: // hand the create role over
		t := u.Tokens[2+r.Intn(2)]
		tok := string(t.ID)
		if _, inflight := w.M.S.InFlightH[tok]; inflight {
			return nil
		}
		cur := w.creator[tok]
		next := w.pickDest(cur)
		if bytes.Equal(cur, next) {
			return nil // T5: never to the current holder itself
		}
		l := u.HandOver(cur, next, t.ID)
		if l.OK {
			w.creator[tok] = next
		}
		return l
	}
}

func (w *Walk) opAccount() *node.Leg {
	u, r := w.U, w.R
	switch r.Intn(4) {
	case 0: // change owner
		k := u.Pick(u.Contracts)
		owner := u.W.Account(k).Owner
		caller := owner
		if r.Chance(35) || len(owner) == 0 {
			caller = u.Pick(u.Users)
		}
		return u.N.Exec(node.Call{Func: FChgOwner, Caller: caller, Recipient: k, Args: [][]byte{u.Pick(u.Users)}, Gas: gen.BigGas})
	case 1:
		k := u.Pick(u.Contracts)
		owner := u.W.Account(k).Owner
		caller := owner
		if r.Chance(35) || len(owner) == 0 {
			caller = u.Pick(u.Actors)
		}
		ct := vmcommon.DirectCall
		if r.Chance(20) {
			ct = vmcommon.AsynchronousCall
		}
		return u.N.Exec(node.Call{Func: FClaim, Caller: caller, Recipient: k, Gas: gen.BigGas, CallType: ct})
	case 2:
		caller := u.DNS
		if r.Chance(30) {
			caller = u.Pick(u.Actors)
		}
		return u.N.Exec(node.Call{Func: FSetName, Caller: caller, Recipient: u.Pick(u.Users), Args: [][]byte{r.Bytes(1 + r.Intn(12))}, Gas: gen.BigGas})
	default:
		who := u.Pick(u.Actors)
		rcv := who
		if r.Chance(15) {
			rcv = u.Pick(u.Actors)
		}
		var args [][]byte
		for i := 0; i < 1+r.Intn(3); i++ {
			args = append(args, w.kvKey(who), r.Bytes(r.Intn(12)))
		}
		return u.N.Exec(node.Call{Func: FSaveKV, Caller: who, Recipient: rcv, Args: args, Gas: gen.BigGas})
	}
}

func (w *Walk) kvKey(who []byte) []byte {
	r := w.R
	switch r.Intn(8) {
	case 0:
		return []byte("ELROND" + string(r.Bytes(r.Intn(4))))
	case 1:
		return []byte(node.KeyPrefix + string(w.U.Tokens[r.Intn(4)].ID))
	case 2:
		return []byte("ELRON")
	case 3:
		return []byte("elrondkey")
	case 4:
		return []byte{}
	default:
		return []byte(fmt.Sprintf("k%d", r.Intn(4)))
	}
}

// ---- the adversary ----

func (w *Walk) hostileBytes() []byte {
	u, r := w.U, w.R
	t := u.Tokens[r.Intn(len(u.Tokens))]
	switch r.Intn(22) {
	case 0:
		return []byte{}
	case 1:
		return []byte{0}
	case 2:
		return []byte{0, 0, 0, 1}
	case 3:
		return []byte{1}
	case 4:
		return bytes.Repeat([]byte{0xff}, 8)
	case 5:
		return append([]byte{1}, make([]byte, 8)...) // 2^64
	case 6:
		return new(big.Int).SetUint64(6148914691236517206).Bytes() // 3n+2 == 4 (mod 2^64)
	case 7:
		return new(big.Int).SetUint64(12297829382473034411).Bytes() // 3n+1 == 2 (mod 2^64)... residues
	case 8:
		return new(big.Int).SetUint64(6148914691236517205).Bytes() // 3n == 2^64-1
	case 9:
		return t.ID
	case 10:
		return t.ID[:len(t.ID)-1] // truncated id: id' ‖ last byte aliases the fungible key
	case 11:
		return append(append([]byte{}, t.ID...), 1) // extended id
	case 12:
		return u.Pick(u.Actors)
	case 13:
		return u.Pick(u.Actors)[:31]
	case 14:
		return append(append([]byte{}, u.Pick(u.Actors)...), 0)
	case 15:
		return gen.SysSC
	case 16:
		return []byte(gen.AllRoles[r.Intn(len(gen.AllRoles))])
	case 17:
		return []byte{2}
	case 18:
		return r.Bytes(1 + r.Intn(9))
	case 19:
		return bytes.Repeat([]byte{0xab}, 101)
	case 20:
		return []byte{byte(r.Intn(4))}
	default:
		return t.ID[len(t.ID)-1:] // the last byte of an id, as a "nonce"
	}
}

func (w *Walk) opHostile() *node.Leg {
	u, r := w.U, w.R
	fn := AllFuncs[r.Intn(len(AllFuncs))]
	caller := u.Pick(u.Actors)
	if (fn == FSetName && r.Chance(70)) || r.Chance(3) {
		caller = u.DNS
	}
	rcv := caller
	switch r.Intn(5) {
	case 0:
		rcv = u.Pick(u.Actors)
	case 1:
		rcv = gen.SysSC
	case 2:
		if !w.O.NoSysDest {
			rcv = gen.SysAcc
		}
	}
	n := r.Intn(9)
	if r.Chance(10) {
		n = 9 + r.Intn(4)
	}
	args := make([][]byte, n)
	for i := range args {
		args[i] = w.hostileBytes()
	}
	// bias towards structurally plausible calls so that deep paths are reached
	if r.Chance(60) {
		t := u.Tokens[r.Intn(len(u.Tokens))]
		switch fn {
		case FNFTXfer:
			if n >= 4 {
				args[0] = t.ID
				args[3] = w.pickDest(caller)
				if r.Chance(20) {
					args[0] = t.ID[:len(t.ID)-1]
					args[1] = t.ID[len(t.ID)-1:]
				}
			}
		case FMulti:
			if n >= 5 {
				args[0] = w.pickDest(caller)
				args[1] = []byte{byte(1 + r.Intn(2))}
				args[2] = t.ID
			}
		default:
			if n >= 1 {
				args[0] = t.ID
			}
		}
	}
	if w.O.NoSysDest {
		for i := range args {
			if bytes.Equal(args[i], gen.SysAcc) {
				args[i] = u.Actors[0]
			}
		}
	}
	gasv := []uint64{0, 1, 100, 5000, gen.BigGas, ^uint64(0)}[r.Intn(6)]
	if fn == FMulti && n >= 2 && r.Chance(25) {
		// a token count whose 3n+c bound wraps, with all the gas there is
		args[1] = gen.U64([]uint64{6148914691236517205, 6148914691236517206, 12297829382473034410, 12297829382473034411}[r.Intn(4)])
		gasv = ^uint64(0)
	}
	c := node.Call{Func: fn, Caller: caller, Recipient: rcv, Args: args, Gas: gasv, CallType: vmcommon.CallType(r.Intn(4)), GasLocked: uint64(r.Intn(2)) * 77}
	if r.Chance(5) {
		c.CallValue = big.NewInt(1)
	}
	c.RetAfterErr = r.Chance(4)
	return u.N.Exec(c)
}

// reconfigure: a gas schedule change (valid or with a zero / missing entry) or an epoch
// notification at or above the activation epoch.
func (w *Walk) reconfigure() {
	r := w.R
	if r.Bool() {
		var m map[string]map[string]uint64
		switch {
		case w.lastSched != nil && r.Chance(25):
			// the schedule in force once more (a node re-reads its configuration): nothing may change
			m = world.CloneGasMap(w.lastSched)
			w.M.R.Cover("walk/reconfigure:same-schedule-again")
		case w.lastSched != nil && r.Chance(25):
			// a new schedule that touches ONE entry and leaves every other price as it is
			m = world.CloneGasMap(w.lastSched)
			var names []string
			for k := range m[vmcommon.BuiltInCostString] {
				names = append(names, k)
			}
			sort.Strings(names)
			m[vmcommon.BuiltInCostString][names[r.Intn(len(names))]] += 1 + uint64(r.Intn(50))
			w.M.R.Cover("walk/reconfigure:one-entry-changed")
		default:
			m = world.GasMapFrom(func(_, _ string, i int) uint64 { return 50 + uint64(r.Intn(400))*3 + uint64(i) })
		}
		valid := true
		if r.Chance(30) {
			delete(m[vmcommon.BuiltInCostString], "ESDTTransfer")
			valid = false
		} else if r.Chance(20) {
			m[vmcommon.BaseOperationCostString]["StorePerByte"] = 0
			valid = false
		}
		w.U.W.GasScheduleChange(m)
		if valid {
			w.lastSched = world.CloneGasMap(m)
		}
	} else {
		w.U.W.ConfirmEpoch(w.U.W.Cfg.ActivationEpoch + uint32(r.Intn(3)))
	}
}

// reencode rewrites one stored protocol entry of one actor into an EQUIVALENT representation (as an
// older or different writer of the same state could have left it): a not-frozen token entry with
// absent properties <-> properties 00 00, a nonce counter with a leading zero byte, a role list
// rotated by one. The logical state (and so the shadow) is unchanged; this happens between legs.
func (w *Walk) reencode() {
	u, r := w.U, w.encR
	a := u.W.AccountIfExists(u.Actors[r.Intn(len(u.Actors))])
	if a == nil {
		return
	}
	var keys []string
	for k := range a.Storage {
		if strings.HasPrefix(k, "ELROND") {
			keys = append(keys, k)
		}
	}
	if len(keys) == 0 {
		return
	}
	sort.Strings(keys)
	k := keys[r.Intn(len(keys))]
	v := a.Peek([]byte(k))
	switch {
	case strings.HasPrefix(k, node.NoncePrefix):
		if len(v) > 0 && len(v) < 12 {
			a.Poke([]byte(k), append([]byte{0}, v...))
			w.M.R.Cover("walk/reencoded:counter-leading-zero")
		}
	case strings.HasPrefix(k, node.RolePrefix):
		if roles, err := refcodec.DecodeRoles(v); err == nil && len(roles) > 1 {
			a.Poke([]byte(k), refcodec.EncodeRoles(append(append([][]byte{}, roles[1:]...), roles[0])))
			w.M.R.Cover("walk/reencoded:roles-rotated")
		}
	case strings.HasPrefix(k, node.KeyPrefix):
		t, err := refcodec.DecodeToken(v)
		if err != nil || t.Amount().Sign() <= 0 {
			return
		}
		switch {
		case bytes.Equal(t.Properties, []byte{0, 0}):
			t.Properties = nil
		case len(t.Properties) == 0:
			t.Properties = []byte{0, 0}
		default:
			return
		}
		a.Poke([]byte(k), refcodec.EncodeToken(t))
		w.M.R.Cover("walk/reencoded:properties")
	}
}

// opForge: the adversary submits, as its own transaction, the destination-form data of a message
// it has seen (what only the protocol may deliver with no sender account): the credit-only leg
// must not be reachable from a transaction.
func (w *Walk) opForge() *node.Leg {
	u, r := w.U, w.R
	if len(w.seen) == 0 {
		return nil
	}
	m := w.seen[r.Intn(len(w.seen))]
	caller := u.Pick(u.Actors)
	rcv := m.To
	if r.Chance(50) {
		rcv = w.pickDest(caller)
	}
	if bytes.Equal(rcv, caller) {
		return nil
	}
	args := make([][]byte, len(m.Args))
	for i := range m.Args {
		args[i] = append([]byte{}, m.Args[i]...)
	}
	return u.N.Exec(node.Call{Func: m.Func, Caller: caller, Recipient: rcv, Args: args, Gas: gen.BigGas, CallType: vmcommon.CallType(r.Intn(4))})
}

// Step executes one random step; returns the leg (nil when the chosen op was not applicable).
func (w *Walk) Step() *node.Leg {
	r := w.R
	if r.Chance(w.O.Hostile) {
		if r.Chance(15) {
			return w.opForge()
		}
		return w.opHostile()
	}
	if w.O.Reconfigure && r.Chance(3) {
		w.reconfigure()
		return nil
	}
	if w.O.Reencode && w.encR.Chance(20) {
		w.reencode()
	}
	if w.O.FlipPayable && w.flipR.Chance(6) && len(w.U.Contracts) > 0 {
		// a contract is upgraded to (non-)payable, or the oracle starts failing for it
		k := w.U.Contracts[w.flipR.Intn(len(w.U.Contracts))]
		w.U.W.Payable[string(k)] = []int{world.PayYes, world.PayNo, world.PayNo, world.PayErr, world.PayDefault}[w.flipR.Intn(5)]
		w.M.R.Cover("walk/payability-flips")
	}
	x := r.Intn(100)
	switch {
	case x < 34:
		return w.opTransfer()
	case x < 52:
		return w.opDeliver()
	case x < 66:
		return w.opSupply()
	case x < 74:
		return w.opMeta()
	case x < 90:
		return w.opSystem()
	default:
		return w.opAccount()
	}
}

// Run executes the walk and drains the pool at the end.
func (w *Walk) Run() {
	if w.O.PadNumbers {
		pr := w.R.Side(0x706164)
		gen.NumPad = func() int {
			if pr.Chance(25) {
				return 1 + pr.Intn(3)
			}
			return 0
		}
		defer func() { gen.NumPad = nil }()
	}
	for i := 0; i < w.O.Steps; i++ {
		w.Step()
	}
	w.U.N.DrainAll()
	w.U.W.Fault = nil
	if w.M.Enabled["C01"] {
		w.M.conservation(w.U.N, &node.Leg{Call: node.Call{Func: "end-of-walk"}, OK: true}, true)
	}
	if w.M.Enabled["C15"] {
		w.M.C15(w.U.N, &node.Leg{Call: node.Call{Func: "end-of-walk"}, OK: true}, true)
	}
	w.M.R.Distinct(w.U.W.Digest())
}

var _ = world.PayYes
