package props

import (
	"fmt"
	"sort"

	vmcommon "github.com/ElrondNetwork/elrond-vm-common"
	"verif/internal/gen"
	"verif/internal/harness"
	"verif/internal/node"
	"verif/internal/world"
)

// C06 (never create gas), C16 (priced by its own entry), C17 (fault enumeration): all three run
// the scenario library.

var gasSchedules = []func(_, _ string, i int) uint64{
	func(_, _ string, i int) uint64 {
		return []uint64{101, 103, 107, 109, 113, 127, 131, 137, 139, 149, 151, 157, 163, 167, 173, 179, 181, 191, 193, 197, 199, 211, 223, 227}[i]
	},
	func(_, _ string, i int) uint64 { return 50000 + uint64(i)*977 },
	func(_, _ string, i int) uint64 { return 1<<32 - 1 - uint64(i) },
}

func scnFor(c *harness.Ctx, sc *Scenario, gm map[string]map[string]uint64, enabled ...string) *Scn {
	return NewScn(c.Rand("scn").Fork(harness.Hash64(sc.Name)), c.R, ScnOpts{Shards: sc.Shards, GasMap: gm, Enabled: enabled})
}

func init() {
	harness.Register(&harness.Property{
		ID: "C06", Level: "exploration",
		Rule:        "cases = scenario library (every function x leg x variant incl. no-op shapes: unchanged value, empty value, zero quantity, attached call, callback on destination) x GasProvided in {0,1,c-1,c,c+1,t-1,t,t+1,2^32,2^63,2^64-1} (c = own cost, t = gas charged, both measured on the same scenario with ample gas) x 3 schedules with non-zero 32-bit costs (small primes, mid-range, 2^32-1-i) + every leg of random walks with adversarial gas values. Oracle: GasRemaining + forwarded <= GasProvided on every committed leg; an under-funded call that succeeds must leave nothing. Non-trivial = committed leg; distinct = (scenario, gas class, schedule, outcome)",
		Assumptions: commonAssumptions,
		Batches:     tierN(8, 32),
		Floors:      map[string]int64{"C06/gas-leg:*": 2000, "C06/underfunded-rejected": 300, "C06/sweep-cases": 1500},
		Run: func(c *harness.Ctx) {
			scs := Scenarios()
			i := 0
			for si, mkS := range gasSchedules {
				gm := world.GasMapFrom(mkS)
				for _, sc := range scs {
					i++
					if !mine(c, i) {
						continue
					}
					s0 := scnFor(c, sc, gm, "C06")
					l0 := sc.Exec(s0, gen.BigGas)
					if l0 == nil || !l0.OK {
						c.R.Cover("C06/scenario-not-successful:" + sc.Name)
						c.R.Note(fmt.Sprintf("scenario %s failed with ample gas: %v", sc.Name, l0.Err))
						continue
					}
					t, ok := node.Consumed(l0)
					if !ok {
						continue // gas-created already reported by the monitor
					}
					own := uint64(0)
					if sc.OwnField != "" {
						own = gm[vmcommon.BuiltInCostString][sc.OwnField]
					}
					gases := map[uint64]bool{0: true, 1: true, own - 1: true, own: true, own + 1: true, t - 1: true, t: true, t + 1: true, 1 << 32: true, 1 << 63: true, ^uint64(0): true, t / 2: true, own * sc.Mult: true, own*sc.Mult - 1: true}
					var gl []uint64
					for g := range gases {
						gl = append(gl, g)
					}
					sort.Slice(gl, func(a, b int) bool { return gl[a] < gl[b] })
					for _, g := range gl {
						s := scnFor(c, sc, gm, "C06")
						l := sc.Exec(s, g)
						c.R.Cover("C06/sweep-cases")
						if l == nil {
							continue
						}
						under := g < t && t != gen.BigGas
						if sc.Dest {
							under = false // destination legs do not charge (the sender shard did)
						}
						if under {
							if l.OK {
								left := l.Out.GasRemaining + node.Forwarded(l.Out)
								if left > 0 {
									s.M.viol("C06", "underfunded-keeps-gas:"+sc.Func, fmt.Sprintf("scenario %s is charged %d; with GasProvided %d it succeeded and kept %d", sc.Name, t, g, left), l)
								} else {
									c.R.Cover("C06/underfunded-consumed-all")
								}
							} else {
								c.R.Cover("C06/underfunded-rejected")
							}
						}
						cls := "above"
						switch {
						case g < t:
							cls = "below"
						case g == t:
							cls = "exact"
						}
						c.R.DistinctS("C06", sc.Name, cls, fmt.Sprint(si), fmt.Sprint(l.OK))
						c.R.Eval(s.U.N.Seq())
					}
					if i == 2 {
						sample(c, map[string]interface{}{"scenario": sc.Name, "charged": t, "gas_values": gl})
					}
				}
			}
			runWalksOpt(c, c.Scale(400, 1500), WalkOpts{Steps: c.Scale(70, 120), Hostile: 35, NoSysDest: true, Reconfigure: true}, "C06")
		},
	})

	harness.Register(&harness.Property{
		ID: "C16", Level: "exploration",
		Rule:        "cases = every sender-side scenario of the library (15 priced functions x argument sizes x same/cross shard x attached call) x the 22 single-field perturbations of a schedule of pairwise distinct primes, applied through the real factory.GasScheduleChange; oracle: consumption delta = multiplier x delta for the function's own field and its documented per-byte fields, 0 for every other field, and the absolute formula under the base schedule; + schedules with a zero / missing entry / missing section (must be rejected as a whole: consumption unchanged) + random sequences of <= 8 accepted/rejected changes. Non-trivial = a measured successful execution; distinct = (scenario, field) + schedule changes (valid / invalid / both orders) delivered to the factory before it creates the container.",
		Assumptions: append([]string{"documented per-byte components as listed in DESIGN.md §5 C16; data-copy gas of same-shard NFT transfers is only required to be a non-negative multiple"}, commonAssumptions...),
		Batches:     tierN(8, 16),
		Floors:      map[string]int64{"C16/sensitivity-measurements": 800, "C16/rejected-schedule-checks": 100, "C16/sequence-checks": 50, "C16/absolute-formula": 30},
		Run:         runC16,
	})

	harness.Register(&harness.Property{
		ID: "C17", Level: "fault_enumeration", Exhaustive: true,
		Rule:        "fault enumeration, complete over the scenario library: for every successful scenario (every function x leg x variant) count the N calls the measured leg makes to the injectable dependency kinds (data-trie write, accounts-adapter load/save of an account the call modifies, marshal, unmarshal, payability query, AddToBalance / ChangeOwnerAddress / ClaimDeveloperRewards), then for every k in 1..N re-run on an identical world with exactly the k-th call failing; oracle: the leg returns a nil output and a non-nil error. Thorough adds double faults and faults on random-walk legs. Storage reads and the pause lookup are excluded by the property. Non-trivial = a fault that fired; distinct = (scenario, k)",
		Assumptions: commonAssumptions,
		Batches:     tierN(8, 16),
		Floors:      map[string]int64{"C17/fault-fired:*": 250, "C17/scenarios": 60},
		Run:         runC17,
	})
}

// ---------------------------------------------------------------------------------------------
// C16

var baseSched = gasSchedules[0]

func fieldIndex(section, name string) int {
	if section == vmcommon.BaseOperationCostString {
		for i, n := range world.BaseFields {
			if n == name {
				return i
			}
		}
	}
	for i, n := range world.BuiltInFields {
		if n == name {
			return len(world.BaseFields) + i
		}
	}
	return -1
}

type fieldRef struct{ section, name string }

func allFields() []fieldRef {
	var fs []fieldRef
	for _, n := range world.BaseFields {
		fs = append(fs, fieldRef{vmcommon.BaseOperationCostString, n})
	}
	for _, n := range world.BuiltInFields {
		fs = append(fs, fieldRef{vmcommon.BuiltInCostString, n})
	}
	return fs
}

// scSig: the signature part naming the scenario's function; scenarios that exercise a known
// finding carry their own name, so that the finding's signature matches nothing else.
func scSig(sc *Scenario) string {
	if sc.OwnSig {
		return sc.Func + "@" + sc.Name
	}
	return sc.Func
}

// priceFormula: own cost x multiplier + documented per-byte components under schedule S.
func priceFormula(sc *Scenario, per map[string]uint64, S map[string]map[string]uint64) (want uint64, exact bool) {
	exact = true
	if sc.OwnField != "" {
		want = S[vmcommon.BuiltInCostString][sc.OwnField] * sc.Mult
	}
	for f, m := range per {
		if m == ^uint64(0) {
			exact = false
			continue
		}
		want += m * S[vmcommon.BaseOperationCostString][f]
	}
	return
}

// measure runs a scenario in a world built with base schedule S0 on which the given schedule
// changes were applied through the real factory, and returns the leg and its consumption.
func measure(c *harness.Ctx, sc *Scenario, changes ...map[string]map[string]uint64) (*Scn, *node.Leg, uint64, bool) {
	s := scnFor(c, sc, world.GasMapFrom(baseSched), "C06")
	for _, ch := range changes {
		s.U.W.GasScheduleChange(ch)
	}
	l := sc.Exec(s, gen.BigGas)
	if l == nil || !l.OK {
		return s, l, 0, false
	}
	cons, ok := node.Consumed(l)
	return s, l, cons, ok
}

func runC16(c *harness.Ctx) {
	R := c.R
	S0 := world.GasMapFrom(baseSched)
	fields := allFields()
	i := 0
	for _, sc := range Scenarios() {
		if sc.Dest {
			continue
		}
		i++
		if !mine(c, i) {
			continue
		}
		s0, l0, cons0, ok := measure(c, sc)
		if !ok {
			R.Note("scenario not measurable: " + sc.Name)
			continue
		}
		per := map[string]uint64{}
		if sc.PerByte != nil {
			per = sc.PerByte(s0, l0)
		}
		// absolute formula under the base schedule
		exact := true
		want := uint64(0)
		if sc.OwnField != "" {
			want = S0[vmcommon.BuiltInCostString][sc.OwnField] * sc.Mult
		}
		for f, m := range per {
			if m == ^uint64(0) {
				exact = false
				continue
			}
			want += m * S0[vmcommon.BaseOperationCostString][f]
		}
		if exact {
			if cons0 != want {
				s0.M.Enabled["C16"] = true
				s0.M.viol("C16", "absolute-price:"+scSig(sc), fmt.Sprintf("scenario %s consumed %d under the base schedule, the documented formula gives %d (own cost x %d + per-byte %v)", sc.Name, cons0, want, sc.Mult, per), l0)
			}
			R.Cover("C16/absolute-formula")
		} else if cons0 < want {
			s0.M.Enabled["C16"] = true
			s0.M.viol("C16", "absolute-price:"+scSig(sc), fmt.Sprintf("scenario %s consumed %d, less than own cost x multiplier = %d", sc.Name, cons0, want), l0)
		}
		// single-field perturbations
		for fi, f := range fields {
			delta := uint64(1000 + 7*fi)
			Sf := world.CloneGasMap(S0)
			Sf[f.section][f.name] += delta
			sF, lF, consF, okF := measure(c, sc, Sf)
			if !okF {
				R.Note(fmt.Sprintf("scenario %s not measurable under perturbed %s", sc.Name, f.name))
				continue
			}
			sF.M.Enabled["C16"] = true
			d := int64(consF) - int64(cons0)
			var wantD int64
			anyMultiple := false
			switch {
			case f.section == vmcommon.BuiltInCostString && f.name == sc.OwnField:
				wantD = int64(sc.Mult * delta)
			case f.section == vmcommon.BaseOperationCostString:
				if m, okp := per[f.name]; okp {
					if m == ^uint64(0) {
						anyMultiple = true
					} else {
						wantD = int64(m * delta)
					}
				}
			}
			if anyMultiple {
				if d < 0 || uint64(d)%delta != 0 {
					sF.M.viol("C16", "sensitivity:"+scSig(sc)+":"+f.name, fmt.Sprintf("scenario %s: raising %s by %d changed the consumption by %d (not a non-negative multiple)", sc.Name, f.name, delta, d), lF)
				}
			} else if d != wantD {
				sF.M.viol("C16", "sensitivity:"+scSig(sc)+":"+f.name, fmt.Sprintf("scenario %s: raising %s by %d changed the consumption by %d, expected %d", sc.Name, f.name, delta, d, wantD), lF)
			}
			R.Cover("C16/sensitivity-measurements")
			R.DistinctS("C16", sc.Name, f.name)
			R.Eval(1)
			// a schedule with a zero / missing entry is rejected as a whole: prices stay those of Sf
			if fi%4 == i%4 {
				bad := world.CloneGasMap(S0)
				for _, g := range fields {
					bad[g.section][g.name] += 5000
				}
				switch fi % 3 {
				case 0:
					bad[f.section][f.name] = 0
				case 1:
					delete(bad[f.section], f.name)
				default:
					delete(bad, f.section)
				}
				sB, lB, consB, okB := measure(c, sc, Sf, bad)
				if !okB || consB != consF {
					sB.M.Enabled["C16"] = true
					sB.M.viol("C16", "rejected-schedule-applied:"+scSig(sc), fmt.Sprintf("scenario %s: after a schedule with a zero/missing %s the consumption is %d, under the last accepted schedule it is %d", sc.Name, f.name, consB, consF), lB)
				}
				R.Cover("C16/rejected-schedule-checks")
			}
		}
		// the same formula under schedules of the size a live network uses (function costs in the
		// millions, tens of thousands per stored byte) and with per-byte prices of 2^22 and 2^33:
		// products far beyond 32 bits, still far from 64
		if exact {
			for si, SX := range []map[string]map[string]uint64{
				world.GasMapFrom(func(sec, _ string, idx int) uint64 {
					if sec == vmcommon.BaseOperationCostString {
						return 10000 + uint64(idx)*10007
					}
					return 1000000 + uint64(idx)*100003
				}),
				world.GasMapFrom(func(sec, _ string, idx int) uint64 {
					if sec == vmcommon.BaseOperationCostString {
						return 1<<22 + uint64(idx)
					}
					return 1<<33 + uint64(idx)
				}),
				world.GasMapFrom(func(sec, _ string, idx int) uint64 {
					if sec == vmcommon.BaseOperationCostString {
						return 1<<33 + uint64(idx)*3
					}
					return 77 + uint64(idx)
				}),
			} {
				sX, lX, consX, okX := measure(c, sc, SX)
				if !okX {
					R.Note(fmt.Sprintf("scenario %s not measurable under large schedule %d", sc.Name, si))
					continue
				}
				wantX := uint64(0)
				if sc.OwnField != "" {
					wantX = SX[vmcommon.BuiltInCostString][sc.OwnField] * sc.Mult
				}
				for f, m := range per {
					wantX += m * SX[vmcommon.BaseOperationCostString][f]
				}
				if consX != wantX {
					sX.M.Enabled["C16"] = true
					sX.M.viol("C16", "absolute-price-large-schedule:"+scSig(sc), fmt.Sprintf("scenario %s consumed %d under large schedule %d, the documented formula gives %d (own cost x %d + per-byte %v)", sc.Name, consX, si, wantX, sc.Mult, per), lX)
				}
				R.Cover("C16/absolute-formula-large-schedules")
				R.Eval(1)
			}
		}
		if i == 3 {
			sample(c, map[string]interface{}{"scenario": sc.Name, "consumption_base": cons0, "own_field": sc.OwnField, "per_byte": fmt.Sprint(per)})
		}
		// random sequences of accepted / rejected changes
		r := c.Rand("c16seq").Fork(uint64(i))
		for q := 0; q < c.Scale(2, 12); q++ {
			var seq []map[string]map[string]uint64
			last := S0
			for k := 0; k < 1+r.Intn(8); k++ {
				m := world.GasMapFrom(func(_, _ string, idx int) uint64 { return 300 + uint64(r.Intn(5000))*32 + uint64(idx) })
				if r.Chance(40) {
					f := fields[r.Intn(len(fields))]
					if r.Bool() {
						m[f.section][f.name] = 0
					} else {
						delete(m[f.section], f.name)
					}
				} else {
					last = m
				}
				seq = append(seq, m)
			}
			_, _, want, ok1 := measure(c, sc, last)
			sS, lS, got, ok2 := measure(c, sc, seq...)
			if ok1 != ok2 || got != want {
				sS.M.Enabled["C16"] = true
				sS.M.viol("C16", "sequence:"+scSig(sc), fmt.Sprintf("scenario %s: after %d schedule changes the consumption is %d, under the last accepted schedule alone it is %d", sc.Name, len(seq), got, want), lS)
			}
			R.Cover("C16/sequence-checks")
			R.Eval(1)
		}
		// a schedule change accepted while the gated functions are still inactive is in force once
		// they are activated
		{
			S1 := world.GasMapFrom(func(_, _ string, idx int) uint64 { return 7000 + uint64(idx)*37 })
			_, _, want, ok1 := measure(c, sc, S1)
			sL := NewScn(c.Rand("scn").Fork(harness.Hash64(sc.Name)), c.R, ScnOpts{Shards: sc.Shards, GasMap: world.GasMapFrom(baseSched), Enabled: []string{"C16"}, LateActivation: true})
			sL.U.W.GasScheduleChange(S1)
			sL.U.W.ConfirmEpoch(5)
			lL := sc.Exec(sL, gen.BigGas)
			if lL != nil {
				got, ok2 := node.Consumed(lL)
				ok2 = ok2 && lL.OK
				if ok1 != ok2 || (ok1 && got != want) {
					sL.M.viol("C16", "schedule-change-while-inactive:"+scSig(sc), fmt.Sprintf("scenario %s: a schedule accepted before the activation epoch was confirmed gives consumption %d after activation, that schedule alone gives %d", sc.Name, got, want), lL)
				}
				R.Cover("C16/late-activation-checks")
			}
			// a schedule change the factory accepts (or rejects) BEFORE it creates the container
			// prices the functions it creates afterwards
			bad := world.CloneGasMap(S1)
			delete(bad[vmcommon.BaseOperationCostString], "StorePerByte")
			for v, pre := range [][]map[string]map[string]uint64{{S1}, {bad}, {bad, S1}, {S1, bad}} {
				wantP, okP := want, ok1
				if v == 1 {
					wantP, okP = cons0, true
				}
				sP := NewScn(c.Rand("scn").Fork(harness.Hash64(sc.Name)), c.R, ScnOpts{Shards: sc.Shards, GasMap: world.GasMapFrom(baseSched), Enabled: []string{"C16"}, PreCreate: pre})
				lP := sc.Exec(sP, gen.BigGas)
				if lP == nil {
					continue
				}
				got, ok2 := node.Consumed(lP)
				ok2 = ok2 && lP.OK
				if okP != ok2 || (okP && got != wantP) {
					sP.M.viol("C16", "schedule-change-before-container:"+scSig(sc), fmt.Sprintf("scenario %s: schedule changes delivered to the factory before it created the container (variant %d) give consumption %d, the last accepted schedule alone gives %d", sc.Name, v, got, wantP), lP)
				}
				R.Cover("C16/pre-container-schedule-checks")
				R.Eval(1)
			}
		}
	}
}

// ---------------------------------------------------------------------------------------------
// C17

func injectable(w *world.World) func(kind string) bool {
	return func(kind string) bool {
		switch kind {
		case world.KSaveKV, world.KLoad, world.KSaveAcc, world.KMarshal, world.KUnmarshal, world.KIsPayable, world.KAddBalance, world.KChangeOwner, world.KClaim:
			return true
		case world.KLoadSys:
			// the pause lookup is fail-soft by interface design; pause / unpause themselves modify
			// the system account
			return w.CurFunc == FPause || w.CurFunc == FUnPause
		}
		return false
	}
}

// runWithFault executes the scenario with the fault plan armed for the measured leg only.
func runWithFault(c *harness.Ctx, sc *Scenario, measuredSeq int, k, k2 int, errs ...error) (*Scn, *node.Leg, *world.FaultPlan) {
	s := scnFor(c, sc, nil, "C17")
	fp := &world.FaultPlan{FailAt: k, FailAt2: k2, Injectable: injectable(s.U.W)}
	if len(errs) > 0 {
		fp.Err = errs[0]
	}
	base := s.U.N.Seq()
	s.U.N.PreRun = func(seq int) {
		if seq-base == measuredSeq {
			s.U.W.Fault = fp
		} else {
			s.U.W.Fault = nil
		}
	}
	l := sc.Exec(s, gen.BigGas)
	s.U.W.Fault = nil
	return s, l, fp
}

func runC17(c *harness.Ctx) {
	R := c.R
	i := 0
	for _, sc := range Scenarios() {
		i++
		if !mine(c, i) {
			continue
		}
		// dry run: which leg is the measured one, and how many injectable calls does it make
		s0 := scnFor(c, sc, nil, "C17")
		base := s0.U.N.Seq()
		l0 := sc.Exec(s0, gen.BigGas)
		if l0 == nil || !l0.OK {
			R.Note("scenario not successful: " + sc.Name)
			continue
		}
		measuredSeq := l0.Seq - base
		_, lc, fp := runWithFault(c, sc, measuredSeq, 0, 0)
		if lc == nil || !lc.OK {
			R.Note("scenario not successful on the counting run: " + sc.Name)
			continue
		}
		N := fp.N
		R.Cover("C17/scenarios")
		for k := 1; k <= N; k++ {
			s, l, fpk := runWithFault(c, sc, measuredSeq, k, 0)
			if len(fpk.Fired) == 0 {
				R.Cover("C17/fault-not-reached")
				continue
			}
			kind := fpk.Fired[0].Kind
			if l.OK || l.Out != nil || l.Err == nil {
				s.M.viol("C17", "fault-swallowed:"+sc.Func+":"+kind, fmt.Sprintf("scenario %s: dependency call #%d (%s, key %q) failed but the call returned success", sc.Name, k, kind, fpk.Fired[0].Key), l)
			}
			// the same fault with every other error value a dependency may return: what the error
			// is or wraps makes no difference to "it failed"
			for ei, e := range world.FaultErrors[1:] {
				s, l, fpe := runWithFault(c, sc, measuredSeq, k, 0, e)
				if len(fpe.Fired) == 0 {
					continue
				}
				if l.OK || l.Out != nil || l.Err == nil {
					s.M.viol("C17", "fault-swallowed:"+sc.Func+":"+kind, fmt.Sprintf("scenario %s: dependency call #%d (%s, key %q) failed with error %q (%T) but the call returned success", sc.Name, k, kind, fpe.Fired[0].Key, e, e), l)
				}
				R.Cover(fmt.Sprintf("C17/fault-error-variant:%d", ei+1))
				R.Eval(1)
			}
			R.Cover("C17/fault-fired:" + sc.Func + ":" + kind)
			R.DistinctS("C17", sc.Name, fmt.Sprint(k))
			R.Eval(1)
			if i == 1 && k == 1 {
				sample(c, map[string]interface{}{"scenario": sc.Name, "injectable_calls": N, "fault_at": k, "kind": kind, "result": fmt.Sprint(l.Err)})
			}
		}
		if c.Thorough() {
			// double faults
			for k := 1; k <= N; k++ {
				for k2 := k + 1; k2 <= N; k2++ {
					s, l, fpk := runWithFault(c, sc, measuredSeq, k, k2)
					if len(fpk.Fired) == 0 {
						continue
					}
					if l.OK || l.Out != nil || l.Err == nil {
						s.M.viol("C17", "fault-swallowed:"+sc.Func+":"+fpk.Fired[0].Kind, fmt.Sprintf("scenario %s: dependency calls #%d and #%d failed but the call returned success", sc.Name, k, k2), l)
					}
					R.Cover("C17/double-fault-fired")
					R.Eval(1)
				}
			}
		}
	}
	// the hand-over of the create role to the holder itself, in worlds whose accounts adapter hands
	// out the live object (T5; not part of the shared scenario library, whose other users compare
	// results across adapter modes): every injectable dependency call of it fails in turn
	if mine(c, 0) {
		for k := 1; k <= 12; k++ {
			for rep := 0; rep < 6; rep++ {
				s := NewScn(c.Rand("c17self").Fork(uint64(k*10+rep)), R, ScnOpts{Shards: 1, Enabled: []string{"C17"}})
				if s.U.W.CopyOnLoad {
					continue
				}
				fp := &world.FaultPlan{FailAt: k, Injectable: injectable(s.U.W), Err: world.FaultErrors[(k+rep)%len(world.FaultErrors)]}
				s.U.W.Fault = fp
				l := s.U.HandOver(s.A, s.A, s.SFT)
				s.U.W.Fault = nil
				if len(fp.Fired) == 0 {
					continue
				}
				if l.OK || l.Out != nil || l.Err == nil {
					s.M.viol("C17", "fault-swallowed:"+FHandOver+":"+fp.Fired[0].Kind, fmt.Sprintf("hand-over to the holder itself: dependency call #%d (%s, key %q) failed but the call returned success", k, fp.Fired[0].Kind, fp.Fired[0].Key), l)
				}
				R.Cover("C17/self-hand-over-fault-fired")
				R.Eval(1)
			}
		}
	}
	// faults on random-walk legs: every committed leg of a walk is re-executed on a clone with one
	// random injectable call failing
	if c.Thorough() || true {
		r := c.Rand("c17walk")
		nw := c.Scale(6, 120)
		for wi := 0; wi < nw; wi++ {
			w := NewWalk(r.Fork(uint64(wi)), c.R, WalkOpts{Steps: 40, Hostile: 5, NoSysDest: true}, "C17")
			rr := r.Fork(uint64(1000 + wi))
			for st := 0; st < w.O.Steps; st++ {
				// choose the fault position for the next leg: first run clean on a snapshot to count
				snap := w.U.W.Snapshot()
				poolCopy := append([]*node.Message{}, w.U.N.Pool...)
				rstate := *w.R
				cnt := &world.FaultPlan{Injectable: injectable(w.U.W)}
				w.U.W.Fault = cnt
				l := w.Step()
				w.U.W.Fault = nil
				if l == nil || !l.OK || cnt.N == 0 {
					continue
				}
				// rewind and repeat the same step with a fault
				after := w.U.W.Snapshot()
				afterPool := append([]*node.Message{}, w.U.N.Pool...)
				afterR := *w.R
				w.U.W.Restore(snap)
				w.U.N.Pool = poolCopy
				*w.R = rstate
				k := 1 + rr.Intn(cnt.N)
				fp := &world.FaultPlan{FailAt: k, Injectable: injectable(w.U.W)}
				w.U.W.Fault = fp
				obs := w.U.N.Observers
				w.U.N.Observers = nil // the shadow already saw this step
				l2 := w.Step()
				w.U.N.Observers = obs
				w.U.W.Fault = nil
				if l2 != nil && len(fp.Fired) > 0 {
					if l2.OK || l2.Out != nil || l2.Err == nil {
						w.M.viol("C17", "fault-swallowed:"+l2.Call.Func+":"+fp.Fired[0].Kind, fmt.Sprintf("walk leg: dependency call #%d (%s) failed but the call returned success", k, fp.Fired[0].Kind), l2)
					}
					R.Cover("C17/walk-fault-fired:" + l2.Call.Func)
					R.Eval(1)
				}
				w.U.W.Restore(after)
				w.U.N.Pool = afterPool
				*w.R = afterR
			}
		}
	}
}
