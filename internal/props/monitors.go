package props

import (
	"bytes"
	"fmt"
	"math/big"
	"sort"
	"strings"

	vmcommon "github.com/ElrondNetwork/elrond-vm-common"
	"github.com/ElrondNetwork/elrond-vm-common/parsers"
	"verif/internal/harness"
	"verif/internal/node"
	"verif/internal/refcodec"
	"verif/internal/world"
)

// Mon bundles the shadow state and the per-property monitors over leg events.
type Mon struct {
	S       *Shadow
	R       *harness.Reporter
	Enabled map[string]bool // which property monitors judge (others stay silent)
	History []string
	// SysDiscipline: the system-contract actor of this world obeys T5 (role lists without
	// duplicates and single-creator checks are only asserted under it).
	SysDiscipline bool
	Registered    [][]byte // registered token ids (for C15 key layout)
	callParser    interface {
		ParseData(data string) (string, [][]byte, error)
	}
	xferParser vmcommon.ESDTTransferParser
	Tag        string // workload tag added to coverage keys
}

func NewMon(r *harness.Reporter, numShards uint32, props ...string) *Mon {
	m := &Mon{S: NewShadow(numShards), R: r, Enabled: map[string]bool{}, SysDiscipline: true}
	for _, p := range props {
		m.Enabled[p] = true
	}
	m.callParser = parsers.NewCallArgsParser()
	m.xferParser, _ = parsers.NewESDTTransferParser(world.PlainCodec{})
	return m
}

// Attach registers the monitor as observer of a node.
func (m *Mon) Attach(n *node.Node) {
	n.Observers = append(n.Observers, m.OnLeg)
}

func (m *Mon) viol(prop, sig, what string, l *node.Leg) {
	if !m.Enabled[prop] {
		return
	}
	h := m.History
	if len(h) > 40 {
		h = h[len(h)-40:]
	}
	m.R.Violate(prop+":"+sig, what, map[string]interface{}{"leg": legString(l), "history_tail": append([]string{}, h...)})
}

func legString(l *node.Leg) string {
	side := "sender-leg"
	if l.Side == node.SideDest {
		side = "dest-leg"
	}
	res := "ok"
	if !l.OK {
		res = fmt.Sprintf("err=%v", l.Err)
		if l.Panic != "" {
			res = "PANIC " + l.Panic
		}
	}
	extra := ""
	if l.Msg != nil {
		extra = fmt.Sprintf(" msg#%d", l.Msg.ID)
		if l.Msg.IsRefund {
			extra += "(refund)"
		}
	}
	return fmt.Sprintf("#%d %s shard=%d%s %s => %s", l.Seq, side, l.Shard, extra, l.Call, res)
}

func (m *Mon) OnLeg(n *node.Node, l *node.Leg) {
	m.History = append(m.History, legString(l))
	if len(m.History) > 400 {
		m.History = append([]string{}, m.History[200:]...)
	}
	if l.NoFunc || l.Inactive {
		return
	}
	if m.Enabled["C11"] {
		m.C11(n, l)
	}
	if m.Enabled["C13"] && l.InputMut != "" {
		m.viol("C13", "input-modified:"+l.Call.Func, "the call modified its input: "+l.InputMut, l)
	}
	if l.Aborted {
		// an injected dependency fault failed the call: rolled back, to be processed again
		m.R.Cover("walk/fault-aborted-legs")
		return
	}
	if l.FaultFired && l.OK {
		m.R.Cover("walk/fault-fired-but-call-succeeded")
	}
	if l.OK {
		if m.Enabled["C01"] {
			m.C01(n, l)
		}
		if m.Enabled["C02"] {
			m.C02(n, l)
		}
		if m.Enabled["C03"] {
			m.C03(n, l)
		}
		if m.Enabled["C04"] {
			m.C04(n, l)
		}
		if m.Enabled["C05"] {
			m.C05(n, l)
		}
		if m.Enabled["C06"] {
			m.C06(n, l)
		}
		if m.Enabled["C07"] {
			m.C07(n, l)
		}
		if m.Enabled["C08"] {
			m.C08(n, l)
		}
		if m.Enabled["C09"] {
			m.C09(n, l)
		}
		if m.Enabled["C10"] {
			m.C10(n, l)
		}
	} else {
		if m.Enabled["C01"] || m.Enabled["C10"] {
			m.rejectedMessage(n, l)
		}
		if !l.FaultFired && l.Panic == "" {
			m.refusedRaw(n, l)
		}
	}
	m.S.Update(n, l)
	if l.OK {
		if m.Enabled["C01"] {
			m.conservation(n, l, false)
		}
		if m.Enabled["C07"] {
			m.C07post(n, l)
		}
		if m.Enabled["C03"] {
			m.C03post(n, l)
		}
		if m.Enabled["C15"] {
			m.C15(n, l, false)
		}
	} else if m.Enabled["C01"] && l.Msg != nil && l.Msg.IsRefund {
		m.conservation(n, l, false)
	}
}

// refusedRaw looks at what a REFUSED call had already written when it returned its error (the node
// rolls that back, and the pinned code relies on it for writes that precede a later guard - the
// sender's debit, earlier tokens of a multi-transfer). Only the two refusals that a property names
// together with "no effect" are judged, and only on the entries they protect:
//   - C03: an attempt the caller has no authority for has written nothing at all;
//   - C09: a plain transfer refused because the destination is not payable has not credited it.
func (m *Mon) refusedRaw(n *node.Node, l *node.Leg) {
	c := l.Call
	a := c.Args
	if m.Enabled["C03"] && len(l.RawDiff) > 0 {
		why := ""
		if role, ok := roleFor[c.Func]; ok && len(a) >= 1 {
			if !m.S.HasRole(c.Caller, a[0], role) {
				why = "the caller does not hold " + role
			} else if c.Func == FNFTCreate && len(a) >= 2 && bigOf(a[1]).Cmp(big.NewInt(1)) > 0 && !m.S.HasRole(c.Caller, a[0], RoleAddQty) {
				why = "the caller does not hold " + RoleAddQty + " (quantity > 1)"
			}
		}
		if sysOnly[c.Func] && !isSys(c.Caller) {
			why = "the caller is not the ESDT system contract"
		}
		if (c.Func == FChgOwner || c.Func == FClaim) && l.DstPresent {
			if pa := l.Pre.Shards[l.Shard][string(c.Recipient)]; pa == nil || !bytes.Equal(pa.Owner, c.Caller) {
				why = "the caller is not the owner"
			}
		}
		if c.Func == FSetName && l.DstPresent {
			if _, ok := n.W.DNS[string(c.Caller)]; !ok {
				why = "the caller is not a DNS address"
			}
		}
		if why != "" {
			ch := l.RawDiff[0]
			m.viol("C03", "unauthorised-attempt-wrote-state:"+c.Func, fmt.Sprintf("%s was refused (%v) and %s, but when it returned it had already changed %s %s %q (and %d more)", c.Func, l.Err, why, node.ShortAddr([]byte(ch.Addr)), ch.Field, ch.Key, len(l.RawDiff)-1), l)
		} else {
			m.R.Cover("C03/refused-raw-writes-not-judged")
		}
	}
	if m.Enabled["C09"] && node.IsTransferFunc(c.Func) && len(l.RawDiff) > 0 && l.LogicalDst != nil {
		exempt := c.CallType == vmcommon.AsynchronousCallBack || c.CallType == vmcommon.ESDTTransferAndExecute || isSys(c.Caller) || len(a) > minArgs(l)
		if !exempt && n.W.PayAnswer(l.LogicalDst) != world.PayYes {
			for _, ch := range l.RawDiff {
				if ch.Addr != string(l.LogicalDst) || ch.Field != "storage" || !strings.HasPrefix(ch.Key, node.KeyPrefix) {
					continue
				}
				oldT, _ := refcodec.DecodeToken(ch.Old)
				newT, err := refcodec.DecodeToken(ch.New)
				if err != nil || newT == nil {
					continue
				}
				oldV := new(big.Int)
				if oldT != nil {
					oldV = oldT.Amount()
				}
				if newT.Amount().Cmp(oldV) > 0 {
					m.viol("C09", "credited-before-refusal:"+c.Func+":"+sideName(l), fmt.Sprintf("the transfer was refused (%v; the oracle does not answer payable for %s) but the destination's entry %q had already been credited when the call returned", l.Err, node.ShortAddr(l.LogicalDst), ch.Key), l)
				}
			}
			m.R.Cover("C09/refused-raw-judged")
		}
	}
}

func sideName(l *node.Leg) string {
	if l.Side == node.SideSender {
		return "snd"
	}
	if l.Msg == nil {
		return "sys"
	}
	if l.Msg.IsRefund {
		return "refund"
	}
	return "dst"
}

func kindOfMoves(mv []node.TokenMove) string {
	f, nf := false, false
	for _, m := range mv {
		if m.Nonce == 0 {
			f = true
		} else {
			nf = true
		}
	}
	switch {
	case f && nf:
		return "mixed"
	case nf:
		return "nft"
	default:
		return "fung"
	}
}

// ---------------------------------------------------------------------------------------------
// C01 — transfers conserve tokens

func (m *Mon) C01(n *node.Node, l *node.Leg) {
	c := l.Call
	if !node.IsTransferFunc(c.Func) {
		return
	}
	deltas, _, bad := tokenDeltas(l.Diff)
	for _, b := range bad {
		m.viol("C01", "undecodable:"+c.Func, b, l)
	}
	if l.Moves == nil || l.LogicalDst == nil {
		m.viol("C01", "accepted-unparsable:"+c.Func, "a transfer call whose token list cannot be read was accepted", l)
		return
	}
	exp := map[akey]*big.Int{}
	dstShard := world.ComputeShard(n.W.NumShards, l.LogicalDst)
	rel := "same"
	switch {
	case l.Msg != nil:
		// delivery or refund: credit the recipient of the message
		for _, mv := range l.Moves {
			addDelta(exp, akey{string(l.Msg.To), mv.Key()}, mv.Qty)
		}
		rel = "deliver"
	case isSys(c.Caller):
		for _, mv := range l.Moves {
			addDelta(exp, akey{string(l.LogicalDst), mv.Key()}, mv.Qty)
		}
		rel = "issue"
	default:
		for _, mv := range l.Moves {
			addDelta(exp, akey{string(c.Caller), mv.Key()}, new(big.Int).Neg(mv.Qty))
			if dstShard == l.Shard {
				addDelta(exp, akey{string(l.LogicalDst), mv.Key()}, mv.Qty)
			}
		}
		if dstShard != l.Shard {
			rel = "cross"
			carried := false
			for _, e := range l.Emitted {
				if e.Kind == node.MsgContinuation && len(e.Moves) > 0 {
					carried = true
				}
			}
			if !carried {
				m.viol("C01", "no-message:"+c.Func, "sender debited for a cross-shard transfer but no message carries the tokens", l)
			}
		}
	}
	prior := "dst-new"
	for _, mv := range l.Moves {
		who := string(l.LogicalDst)
		if l.Msg != nil {
			who = string(l.Msg.To)
		}
		if _, ok := preEntry(l, world.ComputeShard(n.W.NumShards, []byte(who)), who, mv.Key()); ok {
			prior = "dst-holds"
		}
	}
	sig := fmt.Sprintf("%s:%s:%s:%s:n%d:%s", c.Func, sideName(l), rel, kindOfMoves(l.Moves), len(l.Moves), prior)
	if !deltasEqual(exp, deltas) {
		m.viol("C01", "exact-move:"+sig, fmt.Sprintf("balance changes of a successful transfer leg differ from the requested move: expected %s, observed %s", fmtDeltas(exp), fmtDeltas(deltas)), l)
	}
	m.R.Cover("C01/transfer-leg:" + sig)
	m.R.DistinctS("C01", sig, fmt.Sprint(len(c.Args) > minArgs(l)))
}

// minArgs: the argument count of the pure transfer part of this leg's call.
func minArgs(l *node.Leg) int {
	switch l.Call.Func {
	case FTransfer:
		return 2
	case FNFTXfer:
		return 4
	case FMulti:
		if l.Msg != nil || (l.Side == node.SideDest && !bytes.Equal(l.Call.Caller, l.Call.Recipient)) {
			return 3*len(l.Moves) + 1
		}
		return 3*len(l.Moves) + 2
	}
	return 0
}

// conservation: Σ accounts + Σ in-flight == ledger, for the keys this leg touched (or all keys).
func (m *Mon) conservation(n *node.Node, l *node.Leg, full bool) {
	keys := map[string]bool{}
	if full {
		for k := range m.S.Ledger {
			keys[k] = true
		}
		for _, sh := range n.W.Shards {
			for addr, a := range sh.Accounts {
				if addr == sysAcc {
					continue
				}
				for k := range a.Storage {
					if strings.HasPrefix(k, node.KeyPrefix) {
						keys[k] = true
					}
				}
			}
		}
	} else {
		for _, ch := range l.Diff {
			if ch.Field == "storage" && strings.HasPrefix(ch.Key, node.KeyPrefix) && ch.Addr != sysAcc {
				keys[ch.Key] = true
			}
		}
		for _, mv := range l.Moves {
			keys[mv.Key()] = true
		}
	}
	if len(keys) == 0 {
		return
	}
	for k := range keys {
		sum := new(big.Int)
		for _, sh := range n.W.Shards {
			for addr, a := range sh.Accounts {
				if addr == sysAcc {
					continue
				}
				if v := a.Storage[k]; len(v) > 0 {
					if t, err := refcodec.DecodeToken(v); err == nil {
						sum.Add(sum, t.Amount())
					}
				}
			}
		}
		for _, msg := range n.Pool {
			for _, mv := range msg.Moves {
				if mv.Key() == k {
					sum.Add(sum, mv.Qty)
				}
			}
		}
		led := m.S.Ledger[k]
		if led == nil {
			led = new(big.Int)
		}
		if sum.Cmp(led) != 0 {
			what := fmt.Sprintf("conservation broken for storage key %q: accounts + in-flight = %s, ledger = %s", k, sum, led)
			sig := "conservation:" + l.Call.Func + ":" + sideName(l)
			if !l.OK {
				sig = "refund-lost:" + l.Call.Func
				what = "a refund was rejected, the tokens are lost: " + what
			}
			m.viol("C01", sig, what, l)
			// resynchronise so that one defect is reported once, not on every later leg
			m.S.Ledger[k] = sum
		}
	}
	m.R.CoverN("C01/conservation-key-checks", int64(len(keys)))
}

// rejectedMessage: a message emitted by a successful sender leg must be accepted by an admissible
// destination; a refund must always be accepted.
func (m *Mon) rejectedMessage(n *node.Node, l *node.Leg) {
	msg := l.Msg
	if msg == nil || msg.Kind != node.MsgContinuation {
		return
	}
	if msg.IsRefund {
		if len(msg.Moves) > 0 {
			m.viol("C01", "refund-rejected:"+msg.Func, "a return-after-error refund was rejected by the original sender's shard: "+fmt.Sprint(l.Err), l)
		}
		return
	}
	if !node.IsTransferFunc(msg.Func) {
		if msg.Func == FHandOver || msg.Func == FSetName {
			// continuation of a non-transfer built-in: the destination must accept it when the
			// sender leg was legitimate (hand-over from the system contract; DNS caller)
			if msg.Func == FHandOver && msg.Origin != nil && isSys(msg.Origin.Caller) {
				m.viol("C10", "continuation-rejected:"+msg.Func, "the hand-over message emitted by the first leg was rejected on the new holder's shard: "+fmt.Sprint(l.Err), l)
			}
		}
		return
	}
	// admissibility of the destination, read from the pre-state
	dst := msg.To
	shard := l.Shard
	reason := ""
	for _, mv := range msg.Moves {
		if t, ok := preEntry(l, shard, string(dst), node.KeyPrefix+string(mv.TokenID)); ok && mv.Nonce == 0 && t.Frozen() {
			reason = "frozen"
		}
		if m.pausedInState(l, shard, mv.TokenID, mv.Nonce) {
			reason = "paused"
		}
	}
	if reason == "" {
		verify := msg.CallType != vmcommon.AsynchronousCallBack && msg.CallType != vmcommon.ESDTTransferAndExecute && !isSys(msg.From) && len(msg.Args) <= transferPart(msg)
		if verify && n.W.PayAnswer(dst) != world.PayYes {
			reason = "not payable"
		}
	}
	if reason == "" && msg.Origin != nil && msg.Origin.Gas < 1<<20 {
		reason = "low gas" // gas-sweep workloads: not judged here
	}
	sig := fmt.Sprintf("%s:n%d:%s", msg.Func, len(msg.Moves), kindOfMoves(msg.Moves))
	if reason == "" {
		what := fmt.Sprintf("a message emitted by a successful sender leg was rejected by an admissible destination (not frozen, not paused, payable): %v; data=%q", l.Err, truncate(msg.Data, 300))
		m.viol("C01", "message-rejected:"+sig, what, l)
		m.viol("C10", "message-rejected:"+sig, what, l)
	} else {
		m.R.Cover("C01/refund-forced:" + msg.Func + ":" + reason)
	}
}

func transferPart(msg *node.Message) int {
	switch msg.Func {
	case FTransfer:
		return 2
	case FNFTXfer:
		return 4
	case FMulti:
		return 3*len(msg.Moves) + 1
	}
	return 0
}

func truncate(s string, n int) string {
	if len(s) > n {
		return s[:n] + "…"
	}
	return s
}

// pausedInState reads the pause flag of a token on a shard from the pre-state.
func (m *Mon) pausedInState(l *node.Leg, shard uint32, tokenID []byte, nonce uint64) bool {
	if l.Pre == nil {
		return false
	}
	sa := l.Pre.Shards[shard][sysAcc]
	if sa == nil {
		return false
	}
	for _, k := range []string{node.KeyPrefix + string(tokenID), node.StorageKey(tokenID, nonce)} {
		v := sa.Storage[k]
		if len(v) == 2 && v[0]&1 != 0 {
			return true
		}
	}
	return false
}

// ---------------------------------------------------------------------------------------------
// C02 — supply changes only by the stated amount

func (m *Mon) C02(n *node.Node, l *node.Leg) {
	c := l.Call
	a := c.Args
	deltas, touched, bad := tokenDeltas(l.Diff)
	for _, b := range bad {
		m.viol("C02", "undecodable:"+c.Func, b, l)
	}
	// non-negativity of everything written
	for k, ch := range touched {
		if len(ch.New) > 0 {
			if t, err := refcodec.DecodeToken(ch.New); err == nil && t.Value != nil && t.Value.Sign() < 0 {
				m.viol("C02", "negative-balance:"+c.Func, fmt.Sprintf("stored balance at %s is negative: %s", k, t.Value), l)
			}
		}
	}
	if node.IsTransferFunc(c.Func) {
		// the exact move is judged by C01; here only the supply view: a transfer leg changes the
		// total held on this shard by 0 (same shard), by -Σq (cross-shard sender leg) or by +Σq
		// (delivery, refund, issuance by the system contract), per storage key
		net := map[string]*big.Int{}
		for k, d := range deltas {
			if net[k.Key] == nil {
				net[k.Key] = new(big.Int)
			}
			net[k.Key].Add(net[k.Key], d)
		}
		want := map[string]*big.Int{}
		sign := 0
		switch {
		case l.Moves == nil || l.LogicalDst == nil:
			sign = 0 // no readable token list: nothing may change
		case l.Msg != nil || isSys(c.Caller):
			sign = 1
		case world.ComputeShard(n.W.NumShards, l.LogicalDst) != l.Shard:
			sign = -1
		}
		for _, mv := range l.Moves {
			if want[mv.Key()] == nil {
				want[mv.Key()] = new(big.Int)
			}
			if sign > 0 {
				want[mv.Key()].Add(want[mv.Key()], mv.Qty)
			} else if sign < 0 {
				want[mv.Key()].Sub(want[mv.Key()], mv.Qty)
			}
		}
		keys := map[string]bool{}
		for k := range net {
			keys[k] = true
		}
		for k := range want {
			keys[k] = true
		}
		for k := range keys {
			a, b := net[k], want[k]
			if a == nil {
				a = new(big.Int)
			}
			if b == nil {
				b = new(big.Int)
			}
			if a.Cmp(b) != 0 {
				m.viol("C02", "transfer-changes-supply:"+c.Func+":"+sideName(l), fmt.Sprintf("the transfer leg changed the total of key %q held on this shard by %s, the requested move accounts for %s", k, a, b), l)
			}
		}
		m.R.Cover("C02/transfer-leg-supply-checked:" + c.Func)
		return
	}
	exp := map[akey]*big.Int{}
	caller := string(c.Caller)
	armed := true
	switch c.Func {
	case FLocalMint:
		addDelta(exp, akey{caller, node.StorageKey(a[0], 0)}, bigOf(a[1]))
	case FLocalBurn, FBurn:
		addDelta(exp, akey{caller, node.StorageKey(a[0], 0)}, new(big.Int).Neg(bigOf(a[1])))
	case FNFTAddQty:
		addDelta(exp, akey{caller, node.StorageKey(a[0], u64(a[1]))}, bigOf(a[2]))
	case FNFTBurn:
		addDelta(exp, akey{caller, node.StorageKey(a[0], u64(a[1]))}, new(big.Int).Neg(bigOf(a[2])))
	case FNFTCreate:
		// exactly the given quantity under a fresh nonce: one new entry of this token at the caller
		var hit *akey
		for k, ch := range touched {
			if k.Addr == caller && strings.HasPrefix(k.Key, node.KeyPrefix+string(a[0])) {
				kk := k
				if hit != nil {
					m.viol("C02", "create-multi-entry", "ESDTNFTCreate changed more than one entry of the token", l)
				}
				hit = &kk
				if len(ch.Old) != 0 {
					m.viol("C02", "create-not-fresh", fmt.Sprintf("ESDTNFTCreate wrote to %s which already existed (nonce not fresh)", k), l)
				}
			}
		}
		if hit == nil {
			if bigOf(a[1]).Sign() > 0 {
				m.viol("C02", "create-no-entry", "ESDTNFTCreate succeeded without creating an entry", l)
			}
		} else {
			addDelta(exp, *hit, bigOf(a[1]))
		}
	case FWipe:
		k := akey{string(c.Recipient), node.StorageKey(a[0], 0)}
		if t, ok := preEntry(l, l.Shard, k.Addr, k.Key); ok {
			addDelta(exp, k, new(big.Int).Neg(t.Amount()))
			if !t.Frozen() {
				m.viol("C02", "wipe-not-frozen", "ESDTWipe removed a holding that was not frozen", l)
			}
		}
		if _, ok := liveEntry(n.W, c.Recipient, k.Key); ok {
			m.viol("C02", "wipe-incomplete", "ESDTWipe left an entry behind", l)
		}
	default:
		armed = len(deltas) > 0
	}
	if !deltasEqual(exp, deltas) {
		m.viol("C02", "delta:"+c.Func, fmt.Sprintf("balance changes differ from the stated amount: expected %s, observed %s", fmtDeltas(exp), fmtDeltas(deltas)), l)
	}
	if armed || len(exp) > 0 {
		m.R.Cover("C02/supply-leg:" + c.Func)
	} else {
		m.R.Cover("C02/unchanged-leg:" + c.Func)
	}
}

// ---------------------------------------------------------------------------------------------
// C03 — privileged operations require the right authority

var roleFor = map[string]string{FLocalMint: RoleMint, FLocalBurn: RoleBurn, FNFTCreate: RoleCreate, FNFTAddQty: RoleAddQty, FNFTBurn: RoleNFTBurn, FNFTAddURI: RoleAddURI, FNFTUpdAttr: RoleUpdAttr}
var sysOnly = map[string]bool{FSetRole: true, FUnSetRole: true, FFreeze: true, FUnFreeze: true, FWipe: true, FPause: true, FUnPause: true}

func (m *Mon) C03(n *node.Node, l *node.Leg) {
	c := l.Call
	a := c.Args
	fromSys := isSys(c.Caller)
	if role, ok := roleFor[c.Func]; ok {
		if !m.S.HasRole(c.Caller, a[0], role) {
			m.viol("C03", "role-missing:"+c.Func, fmt.Sprintf("%s succeeded although the caller does not hold %s for token %q", c.Func, role, a[0]), l)
		} else {
			m.R.Cover("C03/authorised-success:" + c.Func)
		}
		if c.Func == FNFTCreate && bigOf(a[1]).Cmp(big.NewInt(1)) > 0 {
			if !m.S.HasRole(c.Caller, a[0], RoleAddQty) {
				m.viol("C03", "role-missing:ESDTNFTCreate-qty", "ESDTNFTCreate with quantity > 1 succeeded without the add-quantity role", l)
			} else {
				m.R.Cover("C03/authorised-success:ESDTNFTCreate-qty>1")
			}
		}
	}
	if sysOnly[c.Func] {
		if !fromSys {
			m.viol("C03", "not-system-contract:"+c.Func, c.Func+" succeeded for a caller that is not the ESDT system contract", l)
		} else {
			m.R.Cover("C03/authorised-success:" + c.Func)
		}
	}
	if c.Func == FHandOver {
		if !(fromSys && l.Msg == nil) && !isHandOverDelivery(l) {
			m.viol("C03", "not-system-contract:"+c.Func, "role hand-over succeeded for a caller that is neither the system contract nor its triggered message", l)
		} else {
			m.R.Cover("C03/authorised-success:" + c.Func + ":" + sideName(l))
		}
	}
	if (c.Func == FChgOwner || c.Func == FClaim) && l.DstPresent {
		owner := []byte(nil)
		if pa := l.Pre.Shards[l.Shard][string(c.Recipient)]; pa != nil {
			owner = pa.Owner
		}
		if !bytes.Equal(owner, c.Caller) {
			m.viol("C03", "not-owner:"+c.Func, c.Func+" took effect for a caller that is not the contract's current owner", l)
		} else {
			m.R.Cover("C03/authorised-success:" + c.Func)
		}
	}
	if c.Func == FSetName && l.DstPresent {
		if _, ok := n.W.DNS[string(c.Caller)]; !ok {
			m.viol("C03", "not-dns:"+c.Func, "SetUserName took effect for a caller that is not a configured DNS address", l)
		} else {
			m.R.Cover("C03/authorised-success:" + c.Func)
		}
	}
	// roles / freeze / pause state may change only in system-contract legs (or the hand-over delivery)
	legit := fromSys || isHandOverDelivery(l)
	for _, ch := range l.Diff {
		switch {
		case ch.Field == "storage" && strings.HasPrefix(ch.Key, node.RolePrefix):
			if !legit {
				m.viol("C03", "role-state-changed:"+c.Func, fmt.Sprintf("role list %q of %s changed in a call not made by the system contract", ch.Key, node.ShortAddr([]byte(ch.Addr))), l)
			}
		case ch.Field == "storage" && strings.HasPrefix(ch.Key, node.KeyPrefix) && ch.Addr == sysAcc:
			if !legit {
				m.viol("C03", "pause-state-changed:"+c.Func, fmt.Sprintf("pause flag %q changed in a call not made by the system contract", ch.Key), l)
			}
		case ch.Field == "storage" && strings.HasPrefix(ch.Key, node.KeyPrefix):
			of, nf := false, false
			if t, err := refcodec.DecodeToken(ch.Old); err == nil && len(ch.Old) > 0 {
				of = t.Frozen()
			}
			if t, err := refcodec.DecodeToken(ch.New); err == nil && len(ch.New) > 0 {
				nf = t.Frozen()
			}
			if of != nf && !legit {
				m.viol("C03", "freeze-state-changed:"+c.Func, fmt.Sprintf("frozen flag of %q at %s changed in a call not made by the system contract", ch.Key, node.ShortAddr([]byte(ch.Addr))), l)
			}
		case ch.Field == "owner" || ch.Field == "devreward":
			if c.Func != FChgOwner && c.Func != FClaim {
				m.viol("C03", "owner-state-changed:"+c.Func, "owner / developer reward changed by a function other than ChangeOwnerAddress / ClaimDeveloperRewards", l)
			}
		case ch.Field == "username":
			if c.Func != FSetName {
				m.viol("C03", "username-changed:"+c.Func, "user name changed by a function other than SetUserName", l)
			}
		}
	}
}

// C03post: after a role operation of the system contract (set, unset, hand-over) the role list the
// account actually holds for that token equals what the system contract's calls add up to.
func (m *Mon) C03post(n *node.Node, l *node.Leg) {
	c := l.Call
	if !(c.Func == FSetRole || c.Func == FUnSetRole || c.Func == FHandOver) || len(c.Args) < 1 {
		return
	}
	if !isSys(c.Caller) && !isHandOverDelivery(l) {
		return
	}
	accs := [][]byte{c.Recipient}
	if c.Func == FHandOver && isSys(c.Caller) && len(c.Args) == 2 && world.ComputeShard(n.W.NumShards, c.Args[1]) == l.Shard {
		accs = append(accs, c.Args[1])
	}
	for _, acc := range accs {
		a := n.W.AccountIfExists(acc)
		held := map[string]bool{}
		if a != nil {
			rs, err := refcodec.DecodeRoles(a.Storage[node.RolePrefix+string(c.Args[0])])
			if err != nil {
				m.viol("C03", "role-list-undecodable", "role list does not decode after a role operation", l)
				continue
			}
			for _, r := range rs {
				held[string(r)] = true
			}
		}
		want := m.S.Roles[rkey{string(acc), string(c.Args[0])}]
		for r := range held {
			if !want[r] {
				m.viol("C03", "role-held-but-revoked:"+c.Func, fmt.Sprintf("after %s the account %s holds role %q for token %q which the system contract's calls do not grant (or have revoked)", c.Func, node.ShortAddr(acc), r, c.Args[0]), l)
			}
		}
		for r, ok := range want {
			if ok && !held[r] {
				m.viol("C03", "role-granted-but-missing:"+c.Func, fmt.Sprintf("after %s the account %s lacks role %q for token %q which the system contract granted", c.Func, node.ShortAddr(acc), r, c.Args[0]), l)
			}
		}
		m.R.Cover("C03/role-state-compared:" + c.Func)
	}
}

// ---------------------------------------------------------------------------------------------
// C04 — frozen accounts and paused tokens cannot move funds

func (m *Mon) namedTokens(l *node.Leg) []node.TokenMove {
	c := l.Call
	if node.IsTransferFunc(c.Func) {
		return l.Moves
	}
	a := c.Args
	switch c.Func {
	case FLocalMint, FLocalBurn, FBurn, FWipe, FFreeze, FUnFreeze:
		if len(a) >= 1 {
			return []node.TokenMove{{TokenID: a[0]}}
		}
	case FNFTAddQty, FNFTBurn, FNFTAddURI, FNFTUpdAttr:
		if len(a) >= 2 {
			return []node.TokenMove{{TokenID: a[0], Nonce: u64(a[1])}}
		}
	case FNFTCreate:
		if len(a) >= 1 {
			return []node.TokenMove{{TokenID: a[0], Nonce: m.S.Counter[rkey{string(c.Caller), string(a[0])}] + 1}}
		}
	}
	return nil
}

func (m *Mon) C04(n *node.Node, l *node.Leg) {
	c := l.Call
	fromSys := isSys(c.Caller)
	deltas, touched, _ := tokenDeltas(l.Diff)
	exemptFunc := fromSys && (c.Func == FWipe || c.Func == FUnFreeze || c.Func == FFreeze || c.Func == FUnPause || c.Func == FPause)
	// freeze / unfreeze / pause / unpause never change a balance
	if c.Func == FFreeze || c.Func == FUnFreeze || c.Func == FPause || c.Func == FUnPause {
		if len(deltas) > 0 {
			m.viol("C04", "flag-op-changed-balance:"+c.Func, c.Func+" changed a balance: "+fmtDeltas(deltas), l)
		}
		for k, ch := range touched {
			var om, nm *refcodec.MetaData
			if t, err := refcodec.DecodeToken(ch.Old); err == nil && len(ch.Old) > 0 {
				om = t.Meta
			}
			if t, err := refcodec.DecodeToken(ch.New); err == nil && len(ch.New) > 0 {
				nm = t.Meta
			}
			if !refcodec.MetaEqual(om, nm) {
				m.viol("C04", "flag-op-changed-metadata:"+c.Func, fmt.Sprintf("%s changed the metadata at %s", c.Func, k), l)
			}
		}
	}
	// unfreeze restores exactly the earlier holding
	if c.Func == FUnFreeze && fromSys && len(c.Args) == 1 {
		k := akey{string(c.Recipient), node.KeyPrefix + string(c.Args[0])}
		if snap := m.S.FrozenSnap[k]; snap != nil {
			t, ok := liveEntry(n.W, c.Recipient, k.Key)
			same := ok == snap.exists
			if ok && snap.exists {
				same = t.Amount().Cmp(snap.value) == 0 && refcodec.MetaEqual(t.Meta, snap.meta) && !t.Frozen()
			}
			if ok && !snap.exists {
				same = false
			}
			if !same {
				m.viol("C04", "unfreeze-not-restoring", fmt.Sprintf("after unfreeze the holding at %s differs from the holding before the freeze", k), l)
			}
			m.R.Cover("C04/unfreeze-restores")
		}
	}
	if exemptFunc || c.RetAfterErr {
		if c.RetAfterErr && len(touched) > 0 {
			m.R.Cover("C04/exempt-refund:" + c.Func)
		}
		return
	}
	// frozen: any change to an entry the system contract froze
	for k := range touched {
		if m.S.Frozen[k] {
			m.viol("C04", "frozen-changed:"+c.Func+":"+sideName(l), fmt.Sprintf("entry %s changed while the account is frozen for the token", k), l)
		}
	}
	// paused: any change to an entry of a token named in the input while it is paused on this shard
	for _, mv := range m.namedTokens(l) {
		pk := node.KeyPrefix + string(mv.TokenID)
		for k := range touched {
			if k.Key != mv.Key() {
				continue
			}
			sh := world.ComputeShard(n.W.NumShards, []byte(k.Addr))
			if sh < n.W.NumShards && m.S.Paused[sh][pk] {
				m.viol("C04", "paused-changed:"+c.Func+":"+sideName(l), fmt.Sprintf("entry %s changed while token %q is paused on shard %d", k, mv.TokenID, sh), l)
			}
		}
	}
}

// C04blocked is called by workloads for attempts that are expected to be blocked; it counts the
// armed observations (a blocked attempt leaves no diff by rollback).
func (m *Mon) C04blocked(l *node.Leg, reason string) {
	if !l.OK {
		m.R.Cover("C04/blocked:" + l.Call.Func + ":" + sideName(l) + ":" + reason)
		m.R.DistinctS("C04", l.Call.Func, sideName(l), reason, fmt.Sprint(l.Call.CallType), fmt.Sprint(len(l.Call.Args)))
	}
}

// ---------------------------------------------------------------------------------------------
// C05 — protected namespace; bounded footprint

func logicalDst(c *node.Call) []byte {
	switch c.Func {
	case FNFTXfer:
		if bytes.Equal(c.Caller, c.Recipient) && len(c.Args) >= 4 {
			return c.Args[3]
		}
	case FMulti:
		if bytes.Equal(c.Caller, c.Recipient) && len(c.Args) >= 1 {
			return c.Args[0]
		}
	case FHandOver:
		if isSys(c.Caller) && len(c.Args) == 2 {
			return c.Args[1]
		}
	}
	return c.Recipient
}

func (m *Mon) C05(n *node.Node, l *node.Leg) {
	c := l.Call
	a := c.Args
	if c.Func == FSaveKV {
		if !bytes.Equal(c.Caller, c.Recipient) {
			m.viol("C05", "savekv-not-self", "SaveKeyValue accepted although caller != recipient", l)
		}
		if vmcommon.IsSmartContractAddress(c.Caller) {
			m.viol("C05", "savekv-contract", "SaveKeyValue accepted for a contract account", l)
		}
		pa := l.Pre.Shards[l.Shard][string(c.Caller)]
		expS := map[string][]byte{}
		if pa != nil {
			for k, v := range pa.Storage {
				expS[k] = v
			}
		}
		for i := 0; i+1 < len(a); i += 2 {
			if strings.HasPrefix(string(a[i]), "ELROND") {
				m.viol("C05", "savekv-protected-key", fmt.Sprintf("SaveKeyValue accepted protected key %q", a[i]), l)
			}
			if len(a[i+1]) == 0 {
				delete(expS, string(a[i]))
			} else {
				expS[string(a[i])] = a[i+1]
			}
		}
		live := n.W.AccountIfExists(c.Caller)
		ok := live != nil && len(live.Storage) == len(expS)
		if ok {
			for k, v := range expS {
				if !bytes.Equal(live.Storage[k], v) {
					ok = false
				}
			}
		}
		if !ok {
			m.viol("C05", "savekv-wrong-result", "storage after SaveKeyValue differs from the pre-storage with the listed pairs applied in order", l)
		}
		for _, ch := range l.Diff {
			if ch.Addr != string(c.Caller) || ch.Field != "storage" {
				m.viol("C05", "savekv-footprint", fmt.Sprintf("SaveKeyValue changed %s %s %q", node.ShortAddr([]byte(ch.Addr)), ch.Field, ch.Key), l)
			}
			if ch.Field == "storage" && strings.HasPrefix(ch.Key, "ELROND") {
				m.viol("C05", "savekv-protected-changed", fmt.Sprintf("SaveKeyValue changed protected key %q", ch.Key), l)
			}
		}
		m.R.Cover("C05/savekv-accepted")
		return
	}
	// footprint of every other function
	allowedAcc := map[string]bool{string(c.Caller): true, string(c.Recipient): true, string(logicalDst(&c)): true}
	accountLevel := c.Func == FChgOwner || c.Func == FClaim || c.Func == FSetName
	named := map[string]bool{}    // exact token keys in sender / destination accounts
	namedSys := map[string]bool{} // pause-flag keys in the system account
	namedID := map[string]bool{}  // token ids (role / nonce keys; create's fresh key)
	for _, mv := range m.namedTokens(l) {
		named[mv.Key()] = true
		namedSys[node.KeyPrefix+string(mv.TokenID)] = true
		namedID[string(mv.TokenID)] = true
	}
	if (c.Func == FSetRole || c.Func == FUnSetRole || c.Func == FHandOver || c.Func == FPause || c.Func == FUnPause) && len(a) >= 1 {
		namedID[string(a[0])] = true
		namedSys[node.KeyPrefix+string(a[0])] = true
	}
	createOf := ""
	if c.Func == FNFTCreate && len(a) >= 1 {
		createOf = node.KeyPrefix + string(a[0])
	}
	for _, ch := range l.Diff {
		bad := ""
		switch {
		case ch.Addr != sysAcc && world.ComputeShard(n.W.NumShards, []byte(ch.Addr)) != ch.Shard:
			bad = fmt.Sprintf("an account that lives on another shard, in the state of shard %d,", ch.Shard)
		case ch.Field == "codemeta" || ch.Field == "nonce":
			bad = "field " + ch.Field
		case ch.Field != "storage":
			if !accountLevel {
				bad = "account field " + ch.Field
			} else if !allowedAcc[ch.Addr] {
				bad = "account field of a third account"
			}
		case accountLevel:
			bad = "storage key changed by an account-level function"
		case ch.Addr == sysAcc:
			if !namedSys[ch.Key] {
				bad = "system-account key of a token not named in the input"
			}
		case !allowedAcc[ch.Addr]:
			bad = "third account"
		case strings.HasPrefix(ch.Key, node.RolePrefix):
			if !namedID[ch.Key[len(node.RolePrefix):]] {
				bad = "role list of a token not named in the input"
			}
		case strings.HasPrefix(ch.Key, node.NoncePrefix):
			if !namedID[ch.Key[len(node.NoncePrefix):]] {
				bad = "nonce counter of a token not named in the input"
			}
		case strings.HasPrefix(ch.Key, node.KeyPrefix):
			// a create names its token; the nonce it returns names the entry
			fresh := createOf != "" && ch.Addr == string(c.Caller) && len(l.Out.ReturnData) >= 1 && ch.Key == node.StorageKey(a[0], u64(l.Out.ReturnData[0]))
			if !named[ch.Key] && !fresh {
				bad = "token entry not named in the input"
			}
		default:
			bad = "non-protocol storage key"
		}
		if bad != "" {
			m.viol("C05", "footprint:"+c.Func, fmt.Sprintf("%s changed %s: account %s key %q", c.Func, bad, node.ShortAddr([]byte(ch.Addr)), ch.Key), l)
		}
	}
	if len(l.Diff) > 0 {
		m.R.Cover("C05/footprint-leg:" + c.Func)
	}
}

// ---------------------------------------------------------------------------------------------
// C06 — never create gas (the under-funded half lives in the C06 workload)

func (m *Mon) C06(n *node.Node, l *node.Leg) {
	fw := new(big.Int)
	for _, oa := range l.Out.OutputAccounts {
		if oa == nil {
			continue
		}
		for _, ot := range oa.OutputTransfers {
			fw.Add(fw, new(big.Int).SetUint64(ot.GasLimit))
		}
	}
	tot := new(big.Int).Add(fw, new(big.Int).SetUint64(l.Out.GasRemaining))
	if tot.Cmp(new(big.Int).SetUint64(l.Call.Gas)) > 0 {
		m.viol("C06", "gas-created:"+l.Call.Func+":"+sideName(l), fmt.Sprintf("GasRemaining %d + forwarded %s > GasProvided %d", l.Out.GasRemaining, fw, l.Call.Gas), l)
	}
	m.R.Cover("C06/gas-leg:" + l.Call.Func + ":" + sideName(l))
}

// ---------------------------------------------------------------------------------------------
// C07 — nonces unique and strictly increasing; counter moves with the role

func (m *Mon) C07(n *node.Node, l *node.Leg) {
	c := l.Call
	a := c.Args
	switch c.Func {
	case FNFTCreate:
		tok := string(a[0])
		prev := m.S.Counter[rkey{string(c.Caller), tok}]
		want := prev + 1
		if len(l.Out.ReturnData) < 1 {
			m.viol("C07", "create-return-shape", "ESDTNFTCreate did not return the nonce", l)
			return
		}
		got := u64(l.Out.ReturnData[0])
		if got != want {
			m.viol("C07", "create-nonce-not-successor", fmt.Sprintf("ESDTNFTCreate returned nonce %d, previous nonce of the creator for this token is %d", got, prev), l)
		}
		if m.S.Issued[tok][got] {
			m.viol("C07", "create-nonce-reused", fmt.Sprintf("ESDTNFTCreate returned nonce %d which was already issued for token %q", got, tok), l)
		}
		if st := counterInStorage(n.W, c.Caller, a[0]); st != got {
			m.viol("C07", "create-counter-not-stored", fmt.Sprintf("stored counter %d differs from returned nonce %d", st, got), l)
		}
		if t, ok := liveEntry(n.W, c.Caller, node.StorageKey(a[0], got)); bigOf(a[1]).Sign() > 0 && (!ok || (t.Meta == nil || t.Meta.Nonce != got)) {
			m.viol("C07", "create-entry-missing", fmt.Sprintf("no entry with nonce %d at the creator after ESDTNFTCreate", got), l)
		}
		if _, inflight := m.S.InFlightH[tok]; inflight {
			m.viol("C07", "create-during-handover", "ESDTNFTCreate succeeded between the two legs of a role hand-over", l)
		}
		if m.SysDiscipline && prev < m.S.MaxIssued[tok] {
			m.viol("C07", "create-below-max-issued", fmt.Sprintf("creator's counter %d is below the highest nonce ever issued %d", prev, m.S.MaxIssued[tok]), l)
		}
		m.R.Cover("C07/create")
		m.R.DistinctS("C07", "create", tok, fmt.Sprint(got), node.ShortAddr(c.Caller))
	}
}

// C07post checks the state after the shadow advanced (hand-over legs).
func (m *Mon) C07post(n *node.Node, l *node.Leg) {
	c := l.Call
	a := c.Args
	if c.Func != FHandOver || len(a) != 2 {
		return
	}
	tok := a[0]
	if isSys(c.Caller) && l.Msg == nil {
		old := c.Recipient
		self := bytes.Equal(old, a[1]) // handed to the holder itself: it keeps both (checked as new holder below)
		if !self && hasRoleInStorage(n.W, old, tok, RoleCreate) {
			m.viol("C07", "handover-old-keeps-role", "after the hand-over leg the old holder still has the create role", l)
		}
		if ctr := counterInStorage(n.W, old, tok); !self && ctr != 0 {
			m.viol("C07", "handover-old-keeps-counter", fmt.Sprintf("after the hand-over leg the old holder still has counter %d", ctr), l)
		}
		newH := a[1]
		if world.ComputeShard(n.W.NumShards, newH) == l.Shard {
			m.checkNewHolder(n, l, newH, tok, "same-shard")
		} else {
			// the message must carry the counter
			found := false
			for _, e := range l.Emitted {
				if e.Kind == node.MsgContinuation && e.Func == FHandOver {
					found = true
				}
			}
			if !found {
				m.viol("C07", "handover-no-message", "cross-shard hand-over emitted no message for the new holder", l)
			}
			m.R.Cover("C07/handover-first-leg:cross")
		}
	} else if isHandOverDelivery(l) {
		m.checkNewHolder(n, l, c.Recipient, tok, "delivered")
	}
}

func (m *Mon) checkNewHolder(n *node.Node, l *node.Leg, newH, tok []byte, how string) {
	if !hasRoleInStorage(n.W, newH, tok, RoleCreate) {
		m.viol("C07", "handover-new-lacks-role:"+how, "after the hand-over the new holder lacks the create role", l)
	}
	want := m.S.Counter[rkey{string(newH), string(tok)}]
	if ctr := counterInStorage(n.W, newH, tok); ctr != want {
		m.viol("C07", "handover-counter-wrong:"+how, fmt.Sprintf("new holder's counter is %d, the old holder's counter was %d", ctr, want), l)
	}
	if m.SysDiscipline && want < m.S.MaxIssued[string(tok)] {
		m.viol("C07", "handover-counter-below-max:"+how, fmt.Sprintf("new holder continues at %d, below the highest nonce ever issued %d", want, m.S.MaxIssued[string(tok)]), l)
	}
	m.R.Cover("C07/handover-complete:" + how)
	m.R.DistinctS("C07", "handover", how, string(tok), fmt.Sprint(want))
}

// ---------------------------------------------------------------------------------------------
// C08 — metadata travels intact

func (m *Mon) C08(n *node.Node, l *node.Leg) {
	c := l.Call
	a := c.Args
	switch c.Func {
	case FNFTCreate:
		nn := m.S.Counter[rkey{string(c.Caller), string(a[0])}] + 1
		key := node.StorageKey(a[0], nn)
		t, ok := liveEntry(n.W, c.Caller, key)
		if !ok || t.Meta == nil {
			if bigOf(a[1]).Sign() > 0 {
				m.viol("C08", "create-no-metadata", "no metadata stored by ESDTNFTCreate under the successor nonce", l)
			}
			return
		}
		given := bigOf(a[3])
		roy := uint32(given.Uint64())
		want := &refcodec.MetaData{Nonce: nn, Name: a[2], Creator: c.Caller, Royalties: roy, Hash: a[4], Attributes: a[5], URIs: a[6:]}
		if t.Meta.Royalties > 10000 {
			m.viol("C08", "create-royalties-above-max", fmt.Sprintf("stored royalties %d > 10000", t.Meta.Royalties), l)
		}
		if given.IsUint64() && given.Uint64() > 10000 && given.Uint64() < 1<<32 {
			m.viol("C08", "create-royalties-accepted", fmt.Sprintf("royalties %s > 10000 accepted", given), l)
		}
		if given.IsUint64() && given.Uint64() >= 1<<32 {
			want.Royalties = t.Meta.Royalties // truncated by the code before the bound test: only the bound is asserted
		}
		if !refcodec.MetaEqual(t.Meta, want) {
			m.viol("C08", "create-metadata-wrong", fmt.Sprintf("stored metadata %+v differs from the inputs %+v", *t.Meta, *want), l)
		}
		if t.Type != 1 {
			m.viol("C08", "create-type-wrong", "created entry is not of non-fungible type", l)
		}
		m.R.Cover("C08/create")
		m.R.DistinctS("C08", "create", fmt.Sprint(len(a[2]), len(a[4]), len(a[5]), len(a)-6, roy))
	case FTransfer, FNFTXfer, FMulti:
		m.c08Transfer(n, l)
	case FNFTAddURI, FNFTUpdAttr:
		key := node.StorageKey(a[0], u64(a[1]))
		old, ok1 := preEntry(l, l.Shard, string(c.Caller), key)
		cur, ok2 := liveEntry(n.W, c.Caller, key)
		if !ok1 || !ok2 || old.Meta == nil || cur.Meta == nil {
			m.viol("C08", "meta-op-no-entry:"+c.Func, "metadata operation succeeded without an NFT entry before and after", l)
			return
		}
		want := old.Meta.Clone()
		if c.Func == FNFTAddURI {
			for _, x := range a[2:] {
				want.URIs = append(want.URIs, x)
			}
		} else {
			want.Attributes = a[2]
		}
		if !refcodec.MetaEqual(cur.Meta, want) {
			m.viol("C08", "meta-op-wrong:"+c.Func, fmt.Sprintf("metadata after %s is %+v, expected %+v", c.Func, *cur.Meta, *want), l)
		}
		if cur.Amount().Cmp(old.Amount()) != 0 || cur.Type != old.Type || !bytes.Equal(cur.Properties, old.Properties) {
			m.viol("C08", "meta-op-changed-other:"+c.Func, c.Func+" changed the quantity, type or properties of the entry", l)
		}
		for _, ch := range l.Diff {
			if !(ch.Addr == string(c.Caller) && ch.Field == "storage" && ch.Key == key) {
				m.viol("C08", "meta-op-changed-other-entry:"+c.Func, fmt.Sprintf("%s changed another entry: %q", c.Func, ch.Key), l)
			}
		}
		m.R.Cover("C08/meta-op:" + c.Func)
		return
	}
	// whatever the function: an entry that exists before and after, and is not the target of a
	// metadata operation, keeps its metadata; a holder's metadata equals the registry
	receiving := map[akey]bool{}
	if node.IsTransferFunc(c.Func) {
		// this version keeps metadata per holder: the receiving entry takes the sender's copy
		// (judged hop by hop above), so only the other entries must keep theirs
		who := l.LogicalDst
		if l.Msg != nil {
			who = l.Msg.To
		}
		for _, mv := range l.Moves {
			receiving[akey{string(who), mv.Key()}] = true
		}
	}
	for _, ch := range l.Diff {
		if ch.Field != "storage" || !strings.HasPrefix(ch.Key, node.KeyPrefix) || ch.Addr == sysAcc || receiving[akey{ch.Addr, ch.Key}] {
			continue
		}
		if len(ch.Old) > 0 && len(ch.New) > 0 {
			o, e1 := refcodec.DecodeToken(ch.Old)
			nw, e2 := refcodec.DecodeToken(ch.New)
			if e1 == nil && e2 == nil && o.Meta != nil && !refcodec.MetaEqual(o.Meta, nw.Meta) {
				m.viol("C08", "metadata-changed:"+c.Func+":"+sideName(l), fmt.Sprintf("metadata of existing entry %q at %s changed by %s", ch.Key, node.ShortAddr([]byte(ch.Addr)), c.Func), l)
			}
		}
	}
}

func (m *Mon) c08Transfer(n *node.Node, l *node.Leg) {
	c := l.Call
	for _, mv := range l.Moves {
		if mv.Nonce == 0 || mv.Qty.Sign() == 0 {
			continue // fungible, or nothing travels
		}
		key := mv.Key()
		if l.Msg != nil {
			id := l.Msg.ID
			if l.Msg.IsRefund {
				id = l.Msg.RefundOf
			}
			want := m.S.MsgMeta[id][key]
			if want == nil {
				continue
			}
			cur, ok := liveEntry(n.W, l.Msg.To, key)
			if !ok || !refcodec.MetaEqual(cur.Meta, want) {
				m.viol("C08", "delivered-metadata-differs:"+c.Func, fmt.Sprintf("metadata at the destination after delivery differs from the sender's metadata (key %q)", key), l)
			}
			m.R.Cover("C08/hop:" + c.Func + ":" + sideName(l))
			continue
		}
		if isSys(c.Caller) {
			continue
		}
		old, ok := preEntry(l, l.Shard, string(c.Caller), key)
		if !ok || old.Meta == nil {
			continue
		}
		if reg := m.S.Meta[akey{string(c.Caller), key}]; reg != nil && !refcodec.MetaEqual(reg, old.Meta) {
			m.viol("C08", "registry-mismatch", fmt.Sprintf("holder's stored metadata differs from what it received/created (key %q)", key), l)
		}
		if rem, ok := liveEntry(n.W, c.Caller, key); ok && !refcodec.MetaEqual(rem.Meta, old.Meta) {
			m.viol("C08", "sender-remaining-changed:"+c.Func, "the sender's remaining entry changed in more than the quantity", l)
		}
		if world.ComputeShard(n.W.NumShards, l.LogicalDst) == l.Shard {
			cur, ok := liveEntry(n.W, l.LogicalDst, key)
			if !ok || !refcodec.MetaEqual(cur.Meta, old.Meta) {
				m.viol("C08", "hop-metadata-differs:"+c.Func, fmt.Sprintf("metadata at the destination differs from the sender's metadata before the hop (key %q)", key), l)
			}
			m.R.Cover("C08/hop:" + c.Func + ":same-shard")
		} else {
			// payload of the emitted message, decoded by the reference codec
			for _, e := range l.Emitted {
				if e.Kind != node.MsgContinuation || e.ParseErr != "" {
					continue
				}
				pl := payloadFor(e, mv)
				if pl == nil {
					m.viol("C08", "payload-missing:"+c.Func, "no payload for the NFT in the cross-shard message", l)
					continue
				}
				t, err := refcodec.DecodeToken(pl)
				if err != nil || t.Meta == nil || !refcodec.MetaEqual(t.Meta, old.Meta) {
					m.viol("C08", "payload-metadata-differs:"+c.Func, fmt.Sprintf("cross-shard payload metadata differs from the sender's entry (key %q)", key), l)
				}
				m.R.Cover("C08/payload:" + c.Func)
			}
		}
		m.R.DistinctS("C08", "hop", c.Func, sideName(l), fmt.Sprint(len(old.Meta.URIs), len(old.Meta.Attributes), len(old.Meta.Name)))
	}
}

// payloadFor finds the payload argument of a token in a destination-form message.
func payloadFor(e *node.Message, mv node.TokenMove) []byte {
	switch e.Func {
	case FNFTXfer:
		if len(e.Args) >= 4 {
			return e.Args[3]
		}
	case FMulti:
		if len(e.Args) < 1 {
			return nil
		}
		n := int(u64(e.Args[0]))
		for i := 0; i < n && 3+3*i < len(e.Args); i++ {
			if bytes.Equal(e.Args[1+3*i], mv.TokenID) && u64(e.Args[2+3*i]) == mv.Nonce {
				return e.Args[3+3*i]
			}
		}
	}
	return nil
}

// ---------------------------------------------------------------------------------------------
// C09 — admissible destinations

func (m *Mon) C09(n *node.Node, l *node.Leg) {
	c := l.Call
	if !node.IsTransferFunc(c.Func) {
		return
	}
	deltas, _, _ := tokenDeltas(l.Diff)
	exempt := ""
	switch {
	case c.CallType == vmcommon.AsynchronousCallBack:
		exempt = "callback"
	case c.CallType == vmcommon.ESDTTransferAndExecute:
		exempt = "transfer-and-execute"
	case isSys(c.Caller):
		exempt = "system-contract"
	case len(c.Args) > minArgs(l):
		exempt = "attached-call"
	}
	for k, d := range deltas {
		if d.Sign() <= 0 {
			continue
		}
		ans := n.W.PayAnswer([]byte(k.Addr))
		oracle := map[int]string{world.PayYes: "payable", world.PayNo: "non-payable", world.PayErr: "error"}[ans]
		sig := fmt.Sprintf("%s:%s:%s:%s:%s", c.Func, sideName(l), kindOfMoves(l.Moves), oracle, exempt)
		if ans != world.PayYes && exempt == "" {
			m.viol("C09", "credited-non-payable:"+fmt.Sprintf("%s:%s:%s", c.Func, sideName(l), kindOfMoves(l.Moves)), fmt.Sprintf("tokens credited to %s although the payability oracle answers %q and no exemption applies", node.ShortAddr([]byte(k.Addr)), oracle), l)
		}
		m.R.Cover("C09/credit:" + sig)
		m.R.DistinctS("C09", sig, fmt.Sprint(c.CallType), fmt.Sprint(len(c.Args)-minArgs(l)))
	}
	if l.Side == node.SideSender && l.LogicalDst != nil {
		if world.ComputeShard(n.W.NumShards, l.LogicalDst) == vmcommon.MetachainShardId {
			m.viol("C09", "metachain-destination:"+c.Func, "a transfer addressed to the metachain succeeded", l)
		}
		if c.Func != FTransfer {
			if bytes.Equal(l.LogicalDst, c.Caller) {
				m.viol("C09", "self-destination:"+c.Func, "an NFT/multi transfer addressed to the sender itself succeeded", l)
			}
			if len(l.LogicalDst) != len(c.Caller) {
				m.viol("C09", "bad-length-destination:"+c.Func, "an NFT/multi transfer addressed to an address of a different length succeeded", l)
			}
		}
	}
}

// C09rejected counts guard rejections (called by the workload for cases it expects rejected).
func (m *Mon) C09rejected(l *node.Leg, why string) {
	if !l.OK {
		m.R.Cover("C09/rejected:" + l.Call.Func + ":" + sideName(l) + ":" + why)
		m.R.DistinctS("C09", "rej", l.Call.Func, sideName(l), why, fmt.Sprint(l.Call.CallType), fmt.Sprint(len(l.Call.Args)))
	}
}

// ---------------------------------------------------------------------------------------------
// C10 — emitted data, parsers and the ledger agree

func argsEqual(a, b [][]byte) bool {
	if len(a) != len(b) {
		return false
	}
	for i := range a {
		if !bytes.Equal(a[i], b[i]) {
			return false
		}
	}
	return true
}

// emittedArgsEqual compares the arguments of an emitted message with the expected ones. For the
// continuation of a transfer the numeric fields (count, nonce, quantity) are compared by value and
// NFT payloads by their decoded content, so that an equivalent encoding is not an alarm; attached
// call arguments and every other message are compared byte-wise.
func emittedArgsEqual(origin, fn string, got, want [][]byte) bool {
	if len(got) != len(want) {
		return false
	}
	if fn != origin || !node.IsTransferFunc(fn) {
		return argsEqual(got, want)
	}
	num := func(a, b []byte) bool { return bigOf(a).Cmp(bigOf(b)) == 0 }
	payload := func(a, b []byte) bool {
		if bytes.Equal(a, b) {
			return true
		}
		ta, ea := refcodec.DecodeToken(a)
		tb, eb := refcodec.DecodeToken(b)
		if ea != nil || eb != nil {
			return false
		}
		return ta.Type == tb.Type && ta.Amount().Cmp(tb.Amount()) == 0 && ta.HasValue == tb.HasValue && bytes.Equal(ta.Properties, tb.Properties) &&
			bytes.Equal(ta.Reserved, tb.Reserved) && refcodec.MetaEqual(ta.Meta, tb.Meta)
	}
	switch fn {
	case FTransfer:
		return len(got) >= 2 && bytes.Equal(got[0], want[0]) && num(got[1], want[1]) && argsEqual(got[2:], want[2:])
	case FNFTXfer:
		return len(got) >= 4 && bytes.Equal(got[0], want[0]) && num(got[1], want[1]) && num(got[2], want[2]) && payload(got[3], want[3]) && argsEqual(got[4:], want[4:])
	case FMulti:
		if len(got) < 1 || !num(got[0], want[0]) {
			return false
		}
		k := int(u64(want[0]))
		if len(got) < 1+3*k {
			return false
		}
		for i := 0; i < k; i++ {
			if !bytes.Equal(got[1+3*i], want[1+3*i]) || !num(got[2+3*i], want[2+3*i]) {
				return false
			}
			if u64(want[2+3*i]) == 0 {
				if !num(got[3+3*i], want[3+3*i]) {
					return false
				}
			} else if !payload(got[3+3*i], want[3+3*i]) {
				return false
			}
		}
		return argsEqual(got[1+3*k:], want[1+3*k:])
	}
	return argsEqual(got, want)
}

func wireName(b []byte) bool { return len(b) > 0 && !bytes.Contains(b, []byte("@")) }

// expectedMessages computes, from the call and the pre-state, the (function, args) of every
// non-empty data string the leg must emit. ok=false: no expectation (not judged).
func (m *Mon) expectedMessages(n *node.Node, l *node.Leg) (exp []struct {
	To   []byte
	Func string
	Args [][]byte
}, ok bool) {
	c := l.Call
	a := c.Args
	add := func(to []byte, f string, args [][]byte) {
		exp = append(exp, struct {
			To   []byte
			Func string
			Args [][]byte
		}{to, f, args})
	}
	sc := vmcommon.IsSmartContractAddress
	switch c.Func {
	case FTransfer:
		if l.DstPresent {
			if sc(c.Recipient) && len(a) > 2 {
				if !wireName(a[2]) {
					return nil, false
				}
				add(c.Recipient, string(a[2]), a[3:])
			}
		} else if sc(c.Caller) {
			add(c.Recipient, FTransfer, a)
		}
		return exp, true
	case FBurn:
		if sc(c.Caller) {
			add(c.Recipient, FBurn, a)
		}
		return exp, true
	case FSetName:
		if !l.DstPresent {
			add(c.Recipient, FSetName, a[:1])
		}
		return exp, true
	case FHandOver:
		if isSys(c.Caller) && l.Msg == nil {
			ctr := m.S.Counter[rkey{string(c.Recipient), string(a[0])}]
			add(a[1], FHandOver, [][]byte{a[0], new(big.Int).SetUint64(ctr).Bytes()})
		}
		return exp, true
	case FNFTXfer:
		if l.Side == node.SideSender {
			dst := a[3]
			if world.ComputeShard(n.W.NumShards, dst) != l.Shard {
				old, okE := preEntry(l, l.Shard, string(c.Caller), node.StorageKey(a[0], u64(a[1])))
				if !okE {
					return nil, false
				}
				pl := *old
				pl.Value = bigOf(a[2])
				args := [][]byte{a[0], a[1], a[2], refcodec.EncodeToken(&pl)}
				args = append(args, a[4:]...)
				add(dst, FNFTXfer, args)
			} else if sc(dst) && len(a) > 4 {
				if !wireName(a[4]) {
					return nil, false
				}
				add(dst, string(a[4]), a[5:])
			}
		} else if sc(c.Recipient) && len(a) > 4 {
			if !wireName(a[4]) {
				return nil, false
			}
			add(c.Recipient, string(a[4]), a[5:])
		}
		return exp, true
	case FMulti:
		k := len(l.Moves)
		if l.Side == node.SideSender {
			dst := a[0]
			min := 3*k + 2
			if world.ComputeShard(n.W.NumShards, dst) != l.Shard {
				args := [][]byte{big.NewInt(int64(k)).Bytes()}
				// running balances of the sender per key (repeated tokens)
				for _, mv := range l.Moves {
					args = append(args, mv.TokenID)
					old, okE := preEntry(l, l.Shard, string(c.Caller), mv.Key())
					if !okE {
						return nil, false
					}
					if old.Meta != nil {
						pl := *old
						pl.Value = mv.Qty
						args = append(args, new(big.Int).SetUint64(old.Meta.Nonce).Bytes(), refcodec.EncodeToken(&pl))
					} else {
						args = append(args, []byte{0}, mv.Qty.Bytes())
					}
				}
				args = append(args, a[min:]...)
				add(dst, FMulti, args)
			} else if sc(dst) && len(a) > min {
				if !wireName(a[min]) {
					return nil, false
				}
				add(dst, string(a[min]), a[min+1:])
			}
		} else {
			min := 3*k + 1
			if sc(c.Recipient) && len(a) > min {
				if !wireName(a[min]) {
					return nil, false
				}
				add(c.Recipient, string(a[min]), a[min+1:])
			}
		}
		return exp, true
	}
	return nil, true // every other function emits no data
}

func (m *Mon) C10(n *node.Node, l *node.Leg) {
	c := l.Call
	// (1) every emitted data string parses with the library's call-arguments parser into what was encoded
	var emitted []*node.Message
	for _, e := range l.Emitted {
		if !e.IsRefund && !e.TxItself {
			emitted = append(emitted, e)
		}
	}
	exp, judged := m.expectedMessages(n, l)
	for _, e := range emitted {
		if !judged {
			continue // attached function name the wire format cannot represent (empty / contains '@')
		}
		f, args, err := m.callParser.ParseData(e.Data)
		if err != nil {
			m.viol("C10", "emitted-unparsable:"+c.Func, fmt.Sprintf("emitted data %q does not parse: %v", truncate(e.Data, 200), err), l)
			continue
		}
		if e.ParseErr != "" || f != e.Func || !argsEqual(args, e.Args) {
			m.viol("C10", "parser-disagrees:"+c.Func, fmt.Sprintf("call-arguments parser result for %q differs from the harness tokenizer", truncate(e.Data, 200)), l)
		}
	}
	if judged {
		if len(exp) != len(emitted) {
			m.viol("C10", "emitted-count:"+c.Func+":"+sideName(l), fmt.Sprintf("%d data message(s) emitted, %d expected", len(emitted), len(exp)), l)
		} else {
			for i, x := range exp {
				// order: by destination address (the node driver sorts by output-account key)
				e := emitted[i]
				if len(exp) > 1 {
					for _, cand := range emitted {
						if bytes.Equal(cand.To, x.To) {
							e = cand
						}
					}
				}
				if !bytes.Equal(e.To, x.To) || e.Func != x.Func || !emittedArgsEqual(c.Func, e.Func, e.Args, x.Args) {
					m.viol("C10", "emitted-data-wrong:"+c.Func+":"+sideName(l), fmt.Sprintf("emitted %q to %s, expected %q to %s", truncate(e.Data, 400), node.ShortAddr(e.To), truncate(node.BuildData(x.Func, x.Args), 400), node.ShortAddr(x.To)), l)
				}
				m.R.Cover("C10/emitted-checked:" + c.Func + ":" + sideName(l))
				m.R.DistinctS("C10", "emit", c.Func, sideName(l), x.Func, fmt.Sprint(len(x.Args)))
			}
		}
	}
	// (3) the ESDT-transfer parser's report equals what the ledger moved
	if node.IsTransferFunc(c.Func) && l.Moves != nil {
		m.c10Parser(n, l)
	}
}

func (m *Mon) c10Parser(n *node.Node, l *node.Leg) {
	c := l.Call
	rep, err := m.safeParse(c.Caller, c.Recipient, c.Func, c.Args)
	if err != nil {
		m.viol("C10", "xfer-parser-rejects-accepted:"+c.Func+":"+sideName(l), fmt.Sprintf("the ESDT-transfer parser rejects a call the built-in function accepted: %v", err), l)
		return
	}
	wantRcv := l.LogicalDst
	if l.Msg != nil {
		wantRcv = l.Msg.To
	}
	if !bytes.Equal(rep.RcvAddr, wantRcv) {
		m.viol("C10", "xfer-parser-receiver:"+c.Func, fmt.Sprintf("parser reports receiver %s, the ledger credited %s", node.ShortAddr(rep.RcvAddr), node.ShortAddr(wantRcv)), l)
	}
	// per-token report vs the ledger (aggregated per key)
	deltas, _, _ := tokenDeltas(l.Diff)
	repAgg := map[string]*big.Int{}
	if len(rep.ESDTTransfers) != len(l.Moves) {
		m.viol("C10", "xfer-parser-count:"+c.Func, fmt.Sprintf("parser reports %d transfers, the call names %d", len(rep.ESDTTransfers), len(l.Moves)), l)
		return
	}
	for i, t := range rep.ESDTTransfers {
		mv := l.Moves[i]
		if !bytes.Equal(t.ESDTTokenName, mv.TokenID) || t.ESDTTokenNonce != mv.Nonce {
			m.viol("C10", "xfer-parser-token:"+c.Func, fmt.Sprintf("parser reports token %q nonce %d, the call names %q nonce %d", t.ESDTTokenName, t.ESDTTokenNonce, mv.TokenID, mv.Nonce), l)
		}
		wantType := uint32(vmcommon.Fungible)
		if mv.Nonce > 0 || c.Func == FNFTXfer {
			wantType = uint32(vmcommon.NonFungible)
		}
		if t.ESDTTokenType != wantType {
			m.viol("C10", "xfer-parser-type:"+c.Func, fmt.Sprintf("parser reports type %d for nonce %d", t.ESDTTokenType, mv.Nonce), l)
		}
		k := node.StorageKey(t.ESDTTokenName, t.ESDTTokenNonce)
		if repAgg[k] == nil {
			repAgg[k] = new(big.Int)
		}
		if t.ESDTValue != nil {
			repAgg[k].Add(repAgg[k], t.ESDTValue)
		}
	}
	// what the ledger moved at the receiving (or, on a cross-shard sender leg, the sending) account
	who, sign := string(wantRcv), 1
	if l.Msg == nil && !isSys(c.Caller) && world.ComputeShard(n.W.NumShards, wantRcv) != l.Shard {
		who, sign = string(c.Caller), -1
	}
	if l.Msg == nil && bytes.Equal(wantRcv, c.Caller) {
		repAgg = nil // transfer to self: debit and credit cancel in the ledger
	}
	for k, v := range repAgg {
		d := deltas[akey{who, k}]
		if d == nil {
			d = new(big.Int)
		}
		dd := new(big.Int).Set(d)
		if sign < 0 {
			dd.Neg(dd)
		}
		if dd.Cmp(v) != 0 {
			m.viol("C10", "xfer-parser-value:"+c.Func+":"+sideName(l), fmt.Sprintf("parser reports %s of key %q, the ledger moved %s", v, k, dd), l)
		}
	}
	// attached call
	min := minArgs(l)
	wantFn, wantArgs := "", [][]byte{}
	if len(c.Args) > min {
		wantFn = string(c.Args[min])
		wantArgs = c.Args[min+1:]
	}
	if rep.CallFunction != wantFn || !argsEqual(rep.CallArgs, wantArgs) {
		m.viol("C10", "xfer-parser-call:"+c.Func, fmt.Sprintf("parser reports attached call %q with %d args, the call carries %q with %d args", rep.CallFunction, len(rep.CallArgs), wantFn, len(wantArgs)), l)
	}
	m.R.Cover("C10/xfer-parser-checked:" + c.Func + ":" + sideName(l))
	m.R.DistinctS("C10", "parser", c.Func, sideName(l), fmt.Sprint(len(l.Moves)), kindOfMoves(l.Moves), fmt.Sprint(len(c.Args)-min))
}

func (m *Mon) safeParse(snd, rcv []byte, fn string, args [][]byte) (rep *vmcommon.ParsedESDTTransfers, err error) {
	defer func() {
		if r := recover(); r != nil {
			err = fmt.Errorf("parser panic: %v", r)
		}
	}()
	return m.xferParser.ParseESDTTransfers(snd, rcv, fn, args)
}

// ---------------------------------------------------------------------------------------------
// C11 — totality

func (m *Mon) C11(n *node.Node, l *node.Leg) {
	c := l.Call
	if l.Panic != "" {
		frame := panicFrame(l.Stack)
		m.viol("C11", "panic:"+c.Func+":"+sideName(l)+":"+frame, fmt.Sprintf("panic: %s\n%s", l.Panic, truncate(l.Stack, 1800)), l)
		return
	}
	okShape := l.Out != nil && l.Err == nil && l.Out.ReturnCode == vmcommon.Ok
	errShape := l.Out == nil && l.Err != nil
	if !okShape && !errShape {
		m.viol("C11", "result-shape:"+c.Func, fmt.Sprintf("result is neither (output, Ok, nil) nor (nil, error): out=%v err=%v", l.Out != nil, l.Err), l)
	}
	if n.MeasureAlloc {
		in := 0
		for _, a := range c.Args {
			in += len(a)
		}
		for _, d := range l.Deps {
			if d.Kind == world.KRetrieve {
				in += 64
			}
		}
		bound := uint64(128<<10) + 128*uint64(in)
		switch {
		case l.AllocBytes <= 4<<10:
			m.R.Cover("C11/alloc<=4KiB")
		case l.AllocBytes <= 16<<10:
			m.R.Cover("C11/alloc<=16KiB")
		case l.AllocBytes <= 64<<10:
			m.R.Cover("C11/alloc<=64KiB")
		default:
			m.R.Cover("C11/alloc>64KiB")
		}
		if l.AllocBytes > bound {
			m.viol("C11", "allocation:"+c.Func+":"+sideName(l), fmt.Sprintf("the call allocated %d bytes for %d bytes of arguments (bound %d)", l.AllocBytes, in, bound), l)
		}
	}
	m.R.Cover("C11/leg:" + c.Func + ":" + sideName(l))
}

func panicFrame(stack string) string {
	lines := strings.Split(stack, "\n")
	for _, ln := range lines {
		if strings.Contains(ln, "elrond-vm-common/") && strings.Contains(ln, "(") && !strings.HasPrefix(strings.TrimSpace(ln), "/") {
			ln = strings.TrimSpace(ln)
			if i := strings.LastIndex(ln, "/"); i >= 0 {
				ln = ln[i+1:]
			}
			if i := strings.Index(ln, "("); i > 0 {
				ln = ln[:i]
			}
			return ln
		}
	}
	return "?"
}

// ---------------------------------------------------------------------------------------------
// C15 — well-formed token state

func (m *Mon) isRegistered(id string) bool {
	for _, r := range m.Registered {
		if string(r) == id {
			return true
		}
	}
	return false
}

// C15 scans the accounts changed by the leg (or all accounts).
func (m *Mon) C15(n *node.Node, l *node.Leg, full bool) {
	accs := map[akey]bool{} // Addr + shard in Key
	if full {
		for i, sh := range n.W.Shards {
			for addr := range sh.Accounts {
				accs[akey{addr, fmt.Sprint(i)}] = true
			}
		}
	} else {
		for _, ch := range l.Diff {
			accs[akey{ch.Addr, fmt.Sprint(ch.Shard)}] = true
		}
	}
	for ak := range accs {
		var shard uint32
		fmt.Sscan(ak.Key, &shard)
		acc := n.W.Shards[shard].Accounts[ak.Addr]
		if acc == nil {
			continue
		}
		m.scanAccount(n, l, shard, acc)
	}
}

func (m *Mon) scanAccount(n *node.Node, l *node.Leg, shard uint32, acc *world.Account) {
	fn := "-"
	if l != nil {
		fn = l.Call.Func
	}
	isSysAcc := string(acc.Addr) == sysAcc
	keys := make([]string, 0, len(acc.Storage))
	for k := range acc.Storage {
		keys = append(keys, k)
	}
	sort.Strings(keys)
	for _, k := range keys {
		v := acc.Storage[k]
		who := node.ShortAddr(acc.Addr)
		switch {
		case strings.HasPrefix(k, node.RolePrefix):
			id := k[len(node.RolePrefix):]
			if !m.isRegistered(id) {
				m.viol("C15", "role-key-layout:"+fn, fmt.Sprintf("role key %q at %s is not ELRONDroleesdt+registered token", k, who), l)
			}
			rs, err := refcodec.DecodeRoles(v)
			if err != nil {
				m.viol("C15", "role-undecodable:"+fn, fmt.Sprintf("role list %q at %s does not decode", k, who), l)
				continue
			}
			seen := map[string]bool{}
			for _, r := range rs {
				if seen[string(r)] && m.SysDiscipline {
					m.viol("C15", "role-duplicate:"+fn, fmt.Sprintf("role list %q at %s holds %q twice", k, who, r), l)
				}
				seen[string(r)] = true
			}
			if seen[RoleCreate] && m.SysDiscipline {
				if ctr := u64(acc.Storage[node.NoncePrefix+id]); ctr < m.S.MaxIssued[id] {
					m.viol("C15", "counter-below-issued:"+fn, fmt.Sprintf("create-role holder %s has counter %d below highest issued nonce %d of %q", who, ctr, m.S.MaxIssued[id], id), l)
				}
			}
			m.R.Cover("C15/role-entry-checked")
		case strings.HasPrefix(k, node.NoncePrefix):
			id := k[len(node.NoncePrefix):]
			if !m.isRegistered(id) {
				m.viol("C15", "nonce-key-layout:"+fn, fmt.Sprintf("nonce key %q at %s is not ELRONDnonce+registered token", k, who), l)
			}
			if len(v) == 0 || len(v) > 8 || v[0] == 0 {
				m.viol("C15", "nonce-value-malformed:"+fn, fmt.Sprintf("nonce counter %q at %s is not a minimal big-endian number: %x", k, who, v), l)
			}
			m.R.Cover("C15/nonce-entry-checked")
		case strings.HasPrefix(k, node.KeyPrefix):
			rest := k[len(node.KeyPrefix):]
			var id string
			for _, r := range m.Registered {
				if strings.HasPrefix(rest, string(r)) {
					id = string(r)
				}
			}
			if id == "" {
				m.viol("C15", "token-key-layout:"+fn, fmt.Sprintf("token key %q at %s does not start with a registered token id", k, who), l)
				continue
			}
			nb := rest[len(id):]
			if len(nb) > 8 || (len(nb) > 0 && nb[0] == 0) {
				m.viol("C15", "token-key-nonce-layout:"+fn, fmt.Sprintf("token key %q at %s: nonce bytes are not a minimal big-endian number", k, who), l)
				continue
			}
			nonce := u64([]byte(nb))
			if isSysAcc {
				if len(v) != 2 || len(nb) != 0 {
					m.viol("C15", "pause-flag-malformed:"+fn, fmt.Sprintf("system-account entry %q is not a 2-byte pause flag: %x", k, v), l)
				}
				m.R.Cover("C15/pause-flag-checked")
				continue
			}
			t, err := refcodec.DecodeToken(v)
			if err != nil {
				m.viol("C15", "entry-undecodable:"+fn, fmt.Sprintf("token entry %q at %s does not decode", k, who), l)
				continue
			}
			if !t.HasValue || t.Value == nil {
				m.viol("C15", "entry-no-value:"+fn, fmt.Sprintf("token entry %q at %s has no amount", k, who), l)
				continue
			}
			if t.Value.Sign() < 0 || (t.Value.Sign() == 0 && !(nonce == 0 && t.Frozen())) {
				m.viol("C15", "balance-not-positive:"+fn, fmt.Sprintf("token entry %q at %s has balance %s", k, who, t.Value), l)
			}
			if nonce == 0 {
				if t.Meta != nil {
					m.viol("C15", "fungible-with-metadata:"+fn, fmt.Sprintf("fungible entry %q at %s carries metadata", k, who), l)
				}
				if t.Type != 0 {
					m.viol("C15", "fungible-type:"+fn, fmt.Sprintf("fungible entry %q at %s has type %d", k, who, t.Type), l)
				}
			} else {
				if t.Meta == nil || t.Meta.Nonce != nonce {
					m.viol("C15", "nft-metadata-nonce:"+fn, fmt.Sprintf("NFT entry %q at %s: metadata nonce does not match the key", k, who), l)
				}
				if t.Type != 1 {
					m.viol("C15", "nft-type:"+fn, fmt.Sprintf("NFT entry %q at %s has type %d", k, who, t.Type), l)
				}
			}
			m.R.Cover("C15/token-entry-checked")
		case strings.HasPrefix(k, "ELROND"):
			m.viol("C15", "unknown-protected-key:"+fn, fmt.Sprintf("protected key %q at %s is none of the three layouts", k, who), l)
		}
	}
}
