package props

import (
	"fmt"
	"github.com/ElrondNetwork/elrond-vm-common/parsers"
	"math"
	"math/big"
	"runtime"
	"sort"
	"strings"
	"sync"
	"sync/atomic"
	"time"

	vmcommon "github.com/ElrondNetwork/elrond-vm-common"
	vmatomic "github.com/ElrondNetwork/elrond-vm-common/atomic"
	"github.com/ElrondNetwork/elrond-vm-common/builtInFunctions"
	"github.com/ElrondNetwork/elrond-vm-common/container"
	"github.com/anishathalye/porcupine"
	"verif/internal/gen"
	"verif/internal/harness"
	"verif/internal/node"
	"verif/internal/refcodec"
	"verif/internal/world"
)

// C19 — container, atomics and gas reconfiguration under concurrency. Runs in the -race binary:
// (a) recorded histories checked for linearizability with porcupine against sequential models,
// (b) a stress of all 23 functions through one shared container concurrently with schedule
// changes and epoch notifications (race reports are collected by the parent from GORACE's log),
// (c) single-schedule pricing of two-component functions.

func init() {
	harness.Register(&harness.Property{
		ID: "C19", Level: "exploration", NeedsRace: true,
		Rule: "cases = recorded concurrent histories (2-16 goroutines, 16-64 operations, random mixes, injected yields) of functionContainer {Get, Add, Replace, Remove, Len, Keys}, MutexMap {Get, Insert, Set, Remove, Len, Keys, Values}, Flag, Counter, Int64/Uint32/Uint64/String, each checked with porcupine against a sequential specification (unique values, per-key partition when no Len/Keys is involved), lost-update counts; a stress in which 8-16 goroutines execute all 23 functions through ONE factory-built container while one goroutine alternates two gas schedules through factory.GasScheduleChange, one fires EpochConfirmed and readers poll IsActive, under the Go race detector; every execution of a two-component function must be charged wholly by one of the two schedules. Non-trivial = history with at least two overlapping operations / priced execution; distinct = distinct histories (hash of the operation sequence with results) + steady flag histories (every write re-asserts the current value); destination legs in the stress; one ESDT-transfer parser and one call-arguments parser shared by 8 goroutines, results compared with those computed alone.",
		Assumptions: []string{"Go race detector and porcupine v1.3.0 are the deciding tools; sampled schedules only", "concurrent GasScheduleChange with itself, with SetPayableHandler or with container construction is not claimed by the property and not run",
			"call/return stamps come from one monotonic clock at the client boundary; the recorder's state is per goroutine and merged after the join"},
		Batches:           tierN(8, 24),
		DeathIsViolation:  true,
		OwnStallDetection: true,
		TimeoutS:          func(tier string) int { return map[string]int{"quick": 400, "thorough": 1500}[tier] },
		Floors:            map[string]int64{"C19/histories-linearizable:*": 1500, "C19/overlapping-histories": 300, "C19/stress-calls": 100000, "C19/priced-executions:*": 5000, "C19/schedule-changes": 200},
		Run:               runC19,
	})
}

// ---------------------------------------------------------------------------------------------
// history recording

type mapIn struct {
	Op  string
	Key string
	Val int
}
type mapOut struct {
	OK   bool
	Val  int
	N    int
	Keys string
}

var clockBase = time.Now()

func now() int64 { return int64(time.Since(clockBase)) }

type recorder struct {
	ops []porcupine.Operation
	id  int
}

func (r *recorder) do(in interface{}, f func() interface{}) {
	t0 := now()
	out := f()
	t1 := now()
	r.ops = append(r.ops, porcupine.Operation{ClientId: r.id, Input: in, Call: t0, Output: out, Return: t1})
}

type stubFn struct{ id int }

func (s *stubFn) ProcessBuiltinFunction(_, _ vmcommon.UserAccountHandler, _ *vmcommon.ContractCallInput) (*vmcommon.VMOutput, error) {
	return nil, nil
}
func (s *stubFn) SetNewGasConfig(_ *vmcommon.GasCost) {}
func (s *stubFn) IsActive() bool                      { return true }
func (s *stubFn) IsInterfaceNil() bool                { return s == nil }

// sequential map model; state is a canonical string "k=v;k=v"
func parseState(s string) map[string]int {
	m := map[string]int{}
	if s == "" {
		return m
	}
	for _, kv := range strings.Split(s, ";") {
		var k string
		var v int
		i := strings.LastIndex(kv, "=")
		k = kv[:i]
		fmt.Sscan(kv[i+1:], &v)
		m[k] = v
	}
	return m
}
func fmtState(m map[string]int) string {
	keys := make([]string, 0, len(m))
	for k := range m {
		keys = append(keys, k)
	}
	sort.Strings(keys)
	parts := make([]string, len(keys))
	for i, k := range keys {
		parts[i] = fmt.Sprintf("%s=%d", k, m[k])
	}
	return strings.Join(parts, ";")
}
func keysOf(m map[string]int) string {
	keys := make([]string, 0, len(m))
	for k := range m {
		keys = append(keys, k)
	}
	sort.Strings(keys)
	return strings.Join(keys, ",")
}
func valsOf(m map[string]int) string {
	var vs []int
	for _, v := range m {
		vs = append(vs, v)
	}
	sort.Ints(vs)
	return fmt.Sprint(vs)
}

func mapModel(partition bool) porcupine.Model {
	m := porcupine.Model{
		Init: func() interface{} { return "" },
		Step: func(state, input, output interface{}) (bool, interface{}) {
			st := parseState(state.(string))
			in, out := input.(mapIn), output.(mapOut)
			switch in.Op {
			case "get":
				v, ok := st[in.Key]
				return out.OK == ok && (!ok || out.Val == v), state
			case "insert": // add if absent
				_, exists := st[in.Key]
				if out.OK == exists {
					return false, state
				}
				if !exists {
					st[in.Key] = in.Val
				}
				return true, fmtState(st)
			case "set":
				st[in.Key] = in.Val
				return true, fmtState(st)
			case "remove":
				delete(st, in.Key)
				return true, fmtState(st)
			case "len":
				return out.N == len(st), state
			case "keys":
				return out.Keys == keysOf(st), state
			case "values":
				return out.Keys == valsOf(st), state
			}
			return false, state
		},
		DescribeOperation: func(input, output interface{}) string { return fmt.Sprintf("%+v -> %+v", input, output) },
	}
	if partition {
		m.Partition = func(history []porcupine.Operation) [][]porcupine.Operation {
			by := map[string][]porcupine.Operation{}
			for _, op := range history {
				k := op.Input.(mapIn).Key
				by[k] = append(by[k], op)
			}
			var out [][]porcupine.Operation
			for _, v := range by {
				out = append(out, v)
			}
			return out
		}
	}
	return m
}

type regIn struct {
	Op  string
	Arg int64
	S   string
}
type regOut struct {
	V int64
	B bool
	S string
}

func registerModel(kind string) porcupine.Model {
	return porcupine.Model{
		Init: func() interface{} {
			if kind == "string" {
				return ""
			}
			return int64(0)
		},
		Step: func(state, input, output interface{}) (bool, interface{}) {
			in, out := input.(regIn), output.(regOut)
			if kind == "string" {
				st := state.(string)
				if in.Op == "set" {
					return true, in.S
				}
				return out.S == st, state
			}
			st := state.(int64)
			switch in.Op {
			case "set":
				return true, in.Arg
			case "get":
				return out.V == st, state
			case "getu": // Counter.GetUint64: negative reads as 0
				w := st
				if w < 0 {
					w = 0
				}
				return out.V == w, state
			case "add": // returns the new value
				return out.V == st+in.Arg, st + in.Arg
			case "reset": // returns the old value
				return out.V == st, int64(0)
			case "flagset": // returns previous
				return out.B == (st == 1), int64(1)
			case "flagunset":
				return true, int64(0)
			case "isset":
				return out.B == (st == 1), state
			}
			return false, state
		},
		DescribeOperation: func(input, output interface{}) string { return fmt.Sprintf("%+v -> %+v", input, output) },
	}
}

// runHistory runs G goroutines with their operation lists and returns the merged history.
func runHistory(G int, ops func(g int, rec *recorder, r *harness.Rand), r *harness.Rand) []porcupine.Operation {
	recs := make([]*recorder, G)
	var wg sync.WaitGroup
	start := make(chan struct{})
	for g := 0; g < G; g++ {
		recs[g] = &recorder{id: g}
		rg := r.Fork(uint64(g))
		wg.Add(1)
		go func(g int) {
			defer wg.Done()
			<-start
			ops(g, recs[g], rg)
		}(g)
	}
	close(start)
	wg.Wait()
	var all []porcupine.Operation
	for _, rc := range recs {
		all = append(all, rc.ops...)
	}
	return all
}

func overlapping(h []porcupine.Operation) bool {
	for i := range h {
		for j := i + 1; j < len(h); j++ {
			if h[i].ClientId != h[j].ClientId && h[i].Call < h[j].Return && h[j].Call < h[i].Return {
				return true
			}
		}
	}
	return false
}

func histHash(h []porcupine.Operation) uint64 {
	var sb strings.Builder
	for _, op := range h {
		fmt.Fprintf(&sb, "%d:%v>%v;", op.ClientId, op.Input, op.Output)
	}
	return harness.Hash64(sb.String())
}

func judge(R *harness.Reporter, what string, model porcupine.Model, h []porcupine.Operation) {
	res, _ := porcupine.CheckOperationsVerbose(model, h, 20*time.Second)
	switch res {
	case porcupine.Ok:
		R.Cover("C19/histories-linearizable:" + what)
	case porcupine.Illegal:
		var lines []string
		sort.Slice(h, func(i, j int) bool { return h[i].Call < h[j].Call })
		for _, op := range h {
			if len(lines) < 80 {
				lines = append(lines, fmt.Sprintf("client %d [%d,%d] %+v -> %+v", op.ClientId, op.Call, op.Return, op.Input, op.Output))
			}
		}
		R.Violate("C19:not-linearizable:"+what, "recorded history of "+what+" has no linearization against the sequential specification", lines)
	default:
		R.Cover("C19/checker-timeout:" + what)
	}
	if overlapping(h) {
		R.Cover("C19/overlapping-histories")
	}
	R.Distinct(histHash(h))
}

func yield(r *harness.Rand) {
	if r.Chance(30) {
		runtime.Gosched()
	}
}

// ---------------------------------------------------------------------------------------------

func runC19(c *harness.Ctx) {
	R := c.R
	r := c.Rand("c19")
	nh := c.Scale(2400, 40000) / c.Batches
	keys := []string{"a", "b", "c"}
	var uid int64
	for i := 0; i < nh; i++ {
		rh := r.Fork(uint64(i))
		withLen := i%3 == 0
		G := 2 + rh.Intn(15)
		per := 64 / G
		if withLen {
			G = 2 + rh.Intn(3)
			per = 4 + rh.Intn(5)
		}
		if per < 2 {
			per = 2
		}
		switch i % 2 {
		case 0: // functionContainer
			fc := builtInFunctions.NewBuiltInFunctionContainer()
			stubs := sync.Map{}
			h := runHistory(G, func(g int, rec *recorder, rg *harness.Rand) {
				for k := 0; k < per; k++ {
					key := keys[rg.Intn(len(keys))]
					id := int(atomic.AddInt64(&uid, 1))
					nOps := 4
					if withLen {
						nOps = 6
					}
					switch rg.Intn(nOps) {
					case 0:
						rec.do(mapIn{Op: "get", Key: key}, func() interface{} {
							f, err := fc.Get(key)
							if err != nil {
								return mapOut{}
							}
							return mapOut{OK: true, Val: f.(*stubFn).id}
						})
					case 1:
						s := &stubFn{id: id}
						stubs.Store(id, s)
						rec.do(mapIn{Op: "insert", Key: key, Val: id}, func() interface{} { return mapOut{OK: fc.Add(key, s) == nil} })
					case 2:
						s := &stubFn{id: id}
						rec.do(mapIn{Op: "set", Key: key, Val: id}, func() interface{} { _ = fc.Replace(key, s); return mapOut{} })
					case 3:
						rec.do(mapIn{Op: "remove", Key: key}, func() interface{} { fc.Remove(key); return mapOut{} })
					case 4:
						rec.do(mapIn{Op: "len"}, func() interface{} { return mapOut{N: fc.Len()} })
					default:
						rec.do(mapIn{Op: "keys"}, func() interface{} {
							ks := fc.Keys()
							m := map[string]int{}
							for k := range ks {
								m[k] = 0
							}
							return mapOut{Keys: keysOf(m)}
						})
					}
					yield(rg)
				}
			}, rh)
			judge(R, "functionContainer", mapModel(!withLen), h)
			if i == 0 {
				var ss []string
				for _, op := range h {
					if len(ss) < 10 {
						ss = append(ss, fmt.Sprintf("client %d [%d,%d] %+v -> %+v", op.ClientId, op.Call, op.Return, op.Input, op.Output))
					}
				}
				sample(c, map[string]interface{}{"history_prefix": ss, "goroutines": G})
			}
		default: // MutexMap
			mm := container.NewMutexMap()
			h := runHistory(G, func(g int, rec *recorder, rg *harness.Rand) {
				for k := 0; k < per; k++ {
					key := keys[rg.Intn(len(keys))]
					id := int(atomic.AddInt64(&uid, 1))
					nOps := 4
					if withLen {
						nOps = 7
					}
					switch rg.Intn(nOps) {
					case 0:
						rec.do(mapIn{Op: "get", Key: key}, func() interface{} {
							v, ok := mm.Get(key)
							if !ok {
								return mapOut{}
							}
							return mapOut{OK: true, Val: v.(int)}
						})
					case 1:
						rec.do(mapIn{Op: "insert", Key: key, Val: id}, func() interface{} { return mapOut{OK: mm.Insert(key, id)} })
					case 2:
						rec.do(mapIn{Op: "set", Key: key, Val: id}, func() interface{} { mm.Set(key, id); return mapOut{} })
					case 3:
						rec.do(mapIn{Op: "remove", Key: key}, func() interface{} { mm.Remove(key); return mapOut{} })
					case 4:
						rec.do(mapIn{Op: "len"}, func() interface{} { return mapOut{N: mm.Len()} })
					case 5:
						rec.do(mapIn{Op: "keys"}, func() interface{} {
							m := map[string]int{}
							for _, k := range mm.Keys() {
								m[k.(string)] = 0
							}
							return mapOut{Keys: keysOf(m)}
						})
					default:
						rec.do(mapIn{Op: "values"}, func() interface{} {
							m := map[string]int{}
							for i, v := range mm.Values() {
								m[fmt.Sprint(i)] = v.(int)
							}
							return mapOut{Keys: valsOf(m)}
						})
					}
					yield(rg)
				}
			}, rh)
			judge(R, "MutexMap", mapModel(!withLen), h)
		}
		// atomics: one short history each
		G2 := 2 + rh.Intn(5)
		per2 := 3 + rh.Intn(6)
		switch i % 6 {
		case 0:
			var f vmatomic.Flag
			if steady := (i / 6) % 3; steady != 0 {
				// steady histories: every write re-asserts the value the flag already has (repeated
				// notifications of an epoch on the same side of the activation epoch): no reader
				// may ever see the other value
				var pre []porcupine.Operation
				if steady == 1 {
					t0 := now()
					f.Set()
					pre = append(pre, porcupine.Operation{ClientId: 99, Input: regIn{Op: "flagset"}, Call: t0, Output: regOut{B: true}, Return: now()})
				}
				h := runHistory(G2, func(g int, rec *recorder, rg *harness.Rand) {
					for k := 0; k < per2*3; k++ {
						switch {
						case g%2 == 0 && steady == 1 && rg.Bool():
							rec.do(regIn{Op: "flagset"}, func() interface{} { f.Toggle(true); return regOut{B: true} })
						case g%2 == 0 && steady == 1:
							rec.do(regIn{Op: "flagset"}, func() interface{} { return regOut{B: f.Set()} })
						case g%2 == 0 && rg.Bool():
							rec.do(regIn{Op: "flagunset"}, func() interface{} { f.Toggle(false); return regOut{} })
						case g%2 == 0:
							rec.do(regIn{Op: "flagunset"}, func() interface{} { f.Unset(); return regOut{} })
						default:
							rec.do(regIn{Op: "isset"}, func() interface{} { return regOut{B: f.IsSet()} })
						}
						if rg.Chance(30) {
							yield(rg)
						}
					}
				}, rh)
				judge(R, "Flag-steady", flagModel(), append(pre, h...))
				break
			}
			h := runHistory(G2, func(g int, rec *recorder, rg *harness.Rand) {
				for k := 0; k < per2; k++ {
					switch rg.Intn(5) {
					case 0:
						rec.do(regIn{Op: "flagset"}, func() interface{} { return regOut{B: f.Set()} })
					case 1:
						rec.do(regIn{Op: "flagunset"}, func() interface{} { f.Unset(); return regOut{} })
					case 2:
						rec.do(regIn{Op: "flagset"}, func() interface{} { f.Toggle(true); return regOut{B: true} }) // Toggle(true): previous value unknown -> checked below as a set
					case 3:
						rec.do(regIn{Op: "flagunset"}, func() interface{} { f.Toggle(false); return regOut{} })
					default:
						rec.do(regIn{Op: "isset"}, func() interface{} { return regOut{B: f.IsSet()} })
					}
					yield(rg)
				}
			}, rh)
			// Toggle(true) does not report the previous value: rewrite those ops as blind sets
			for k := range h {
				if in := h[k].Input.(regIn); in.Op == "flagset" && h[k].Output.(regOut).B {
					_ = in
				}
			}
			judge(R, "Flag", flagModel(), h)
		case 1:
			var cn vmatomic.Counter
			h := runHistory(G2, func(g int, rec *recorder, rg *harness.Rand) {
				for k := 0; k < per2; k++ {
					d := int64(1 + rg.Intn(5))
					switch rg.Intn(8) {
					case 0:
						rec.do(regIn{Op: "add", Arg: 1}, func() interface{} { return regOut{V: cn.Increment()} })
					case 1:
						rec.do(regIn{Op: "add", Arg: -1}, func() interface{} { return regOut{V: cn.Decrement()} })
					case 2:
						rec.do(regIn{Op: "add", Arg: d}, func() interface{} { return regOut{V: cn.Add(d)} })
					case 3:
						rec.do(regIn{Op: "add", Arg: -d}, func() interface{} { return regOut{V: cn.Subtract(d)} })
					case 4:
						rec.do(regIn{Op: "reset"}, func() interface{} { return regOut{V: cn.Reset()} })
					case 5:
						rec.do(regIn{Op: "set", Arg: d * 10}, func() interface{} { cn.Set(d * 10); return regOut{} })
					case 6:
						rec.do(regIn{Op: "getu"}, func() interface{} { return regOut{V: int64(cn.GetUint64())} })
					default:
						rec.do(regIn{Op: "get"}, func() interface{} { return regOut{V: cn.Get()} })
					}
					yield(rg)
				}
			}, rh)
			judge(R, "Counter", registerModel("int"), h)
		case 2:
			var v vmatomic.Int64
			h := runHistory(G2, func(g int, rec *recorder, rg *harness.Rand) {
				for k := 0; k < per2; k++ {
					x := atomic.AddInt64(&uid, 1)
					switch k % 3 {
					case 1:
						x = x - math.MaxInt64 // near the minimum (negated below: near the maximum)
					case 2:
						x = -x
					}
					if rg.Bool() {
						rec.do(regIn{Op: "set", Arg: -x}, func() interface{} { v.Set(-x); return regOut{} })
					} else {
						rec.do(regIn{Op: "get"}, func() interface{} { return regOut{V: v.Get()} })
					}
					yield(rg)
				}
			}, rh)
			judge(R, "Int64", registerModel("int"), h)
		case 3:
			var v vmatomic.Uint32
			h := runHistory(G2, func(g int, rec *recorder, rg *harness.Rand) {
				for k := 0; k < per2; k++ {
					x := atomic.AddInt64(&uid, 1) & 0xffffffff
					if k%2 == 1 {
						x |= 0x80000000
					}
					if rg.Bool() {
						rec.do(regIn{Op: "set", Arg: x}, func() interface{} { v.Set(uint32(x)); return regOut{} })
					} else {
						rec.do(regIn{Op: "get"}, func() interface{} { return regOut{V: int64(v.Get())} })
					}
					yield(rg)
				}
			}, rh)
			judge(R, "Uint32", registerModel("int"), h)
		case 4:
			var v vmatomic.Uint64
			h := runHistory(G2, func(g int, rec *recorder, rg *harness.Rand) {
				for k := 0; k < per2; k++ {
					x := atomic.AddInt64(&uid, 1) + 1<<40
					if k%2 == 1 {
						x |= -1 << 63 // values >= 2^63 (the int64 view of the same 64 bits is negative)
					}
					if rg.Bool() {
						rec.do(regIn{Op: "set", Arg: x}, func() interface{} { v.Set(uint64(x)); return regOut{} })
					} else {
						rec.do(regIn{Op: "get"}, func() interface{} { return regOut{V: int64(v.Get())} })
					}
					yield(rg)
				}
			}, rh)
			judge(R, "Uint64", registerModel("int"), h)
		default:
			var v vmatomic.String
			h := runHistory(G2, func(g int, rec *recorder, rg *harness.Rand) {
				for k := 0; k < per2; k++ {
					x := fmt.Sprint("s", atomic.AddInt64(&uid, 1))
					if rg.Chance(15) {
						x = "" // the empty string is a value like any other: it replaces what was there
					}
					if rg.Bool() {
						rec.do(regIn{Op: "set", S: x}, func() interface{} { v.Set(x); return regOut{} })
					} else {
						rec.do(regIn{Op: "get"}, func() interface{} { return regOut{S: v.Get()} })
					}
					yield(rg)
				}
			}, rh)
			judge(R, "String", registerModel("string"), h)
		}
	}
	R.Eval(nh * 2)
	// lost updates
	{
		var cn vmatomic.Counter
		var wg sync.WaitGroup
		const G, M = 16, 2000
		for g := 0; g < G; g++ {
			wg.Add(1)
			go func() {
				defer wg.Done()
				for k := 0; k < M; k++ {
					cn.Increment()
					cn.Add(2)
					cn.Decrement()
				}
			}()
		}
		wg.Wait()
		if cn.Get() != G*M*2 {
			R.Violate("C19:lost-update:Counter", fmt.Sprintf("%d x %d x (+1 +2 -1) gives %d, expected %d", G, M, cn.Get(), G*M*2), nil)
		}
		R.Cover("C19/lost-update-checks")
	}
	// bounded-range stress: writers keep the counter within [-G, +G] (each adds +1 then -1, or -1
	// then +1), readers must never see a value outside that range through any accessor
	{
		var cn vmatomic.Counter
		var i64 vmatomic.Int64
		var fl vmatomic.Flag
		const G = 6
		stop := make(chan struct{})
		var wg sync.WaitGroup
		var bad atomic.Value
		for g := 0; g < G; g++ {
			wg.Add(1)
			go func(g int) {
				defer wg.Done()
				for {
					select {
					case <-stop:
						return
					default:
					}
					if g%2 == 0 {
						cn.Increment()
						cn.Decrement()
						cn.Add(1)
						cn.Subtract(1)
					} else {
						cn.Decrement()
						cn.Increment()
						cn.Subtract(1)
						cn.Add(1)
					}
					i64.Set(int64(g))
					fl.Toggle(g%2 == 0)
				}
			}(g)
		}
		var reads int64
		for k := 0; k < 4; k++ {
			wg.Add(1)
			go func() {
				defer wg.Done()
				for {
					select {
					case <-stop:
						return
					default:
					}
					if v := cn.GetUint64(); v > G {
						bad.Store(fmt.Sprintf("GetUint64() = %d while the counter stays within [-%d, %d]", v, G, G))
					}
					if v := cn.Get(); v > G || v < -G {
						bad.Store(fmt.Sprintf("Get() = %d while the counter stays within [-%d, %d]", v, G, G))
					}
					if v := i64.Get(); v < 0 || v >= G {
						bad.Store(fmt.Sprintf("Int64.Get() = %d, a value never written", v))
					}
					_ = fl.IsSet()
					atomic.AddInt64(&reads, 1)
				}
			}()
		}
		time.Sleep(time.Duration(c.Scale(300, 1500)) * time.Millisecond)
		close(stop)
		wg.Wait()
		if msg, ok := bad.Load().(string); ok {
			R.Violate("C19:value-never-held:Counter", "a reader observed a value the object never held: "+msg, nil)
		}
		if v := cn.Get(); v != 0 {
			R.Violate("C19:lost-update:Counter", fmt.Sprintf("after balanced +1/-1 pairs the counter is %d", v), nil)
		}
		R.CoverN("C19/bounded-range-reads", reads)
	}
	c19SharedParsers(c)
	c19Stress(c)
}

// c19SharedParsers: the node keeps ONE ESDT-transfer parser and ONE call-arguments parser and uses
// them from every processing goroutine. Several goroutines parse different destination-form
// messages through the same parser objects; every result must equal the one computed alone.
func c19SharedParsers(c *harness.Ctx) {
	R := c.R
	xp, _ := parsers.NewESDTTransferParser(world.PlainCodec{})
	cp := parsers.NewCallArgsParser()
	G := 8
	type job struct {
		fn      string
		snd     []byte
		rcv     []byte
		args    [][]byte
		want    string
		dataStr string
	}
	show := func(p *vmcommon.ParsedESDTTransfers, err error) string {
		if err != nil || p == nil {
			return "err"
		}
		var sb strings.Builder
		fmt.Fprintf(&sb, "%x|%s|%x|", p.RcvAddr, p.CallFunction, p.CallArgs)
		for _, t := range p.ESDTTransfers {
			fmt.Fprintf(&sb, "(%s,%d,%v,%d)", t.ESDTTokenName, t.ESDTTokenNonce, t.ESDTValue, t.ESDTTokenType)
		}
		return sb.String()
	}
	jobs := make([][]job, G)
	for g := 0; g < G; g++ {
		for k := 0; k < 6; k++ {
			qty := int64(1000*g + k + 1)
			pay := func(n uint64, q int64) []byte {
				return refcodec.EncodeToken(&refcodec.Token{Type: 1, Value: big.NewInt(q), HasValue: true, Meta: &refcodec.MetaData{Nonce: n, Name: []byte(fmt.Sprintf("n%d", g)), Hash: []byte("h"), URIs: [][]byte{[]byte(fmt.Sprintf("u%d-%d", g, k))}}})
			}
			snd, rcv := gen.UserAddr(g, 0), gen.UserAddr(g+20, 1)
			var j job
			switch k % 3 {
			case 0:
				j = job{fn: FMulti, snd: snd, rcv: rcv, args: [][]byte{gen.Big(3), []byte("SFTA-112233"), gen.U64(uint64(g + 1)), pay(uint64(g+1), qty), []byte("FUNA-a1b2c3"), {}, gen.Big(qty + 7), []byte("NFTA-445566"), gen.U64(uint64(k + 1)), pay(uint64(k+1), qty+1), []byte("fn"), {byte(g)}}}
			case 1:
				j = job{fn: FNFTXfer, snd: snd, rcv: rcv, args: [][]byte{[]byte("SFTA-112233"), gen.U64(uint64(g + 1)), gen.Big(qty), pay(uint64(g+1), qty)}}
			default:
				j = job{fn: FTransfer, snd: snd, rcv: rcv, args: [][]byte{[]byte("FUNA-a1b2c3"), gen.Big(qty), []byte("fn"), {byte(k)}, {}}}
			}
			j.want = show(xp.ParseESDTTransfers(j.snd, j.rcv, j.fn, j.args))
			j.dataStr = node.BuildData(j.fn, j.args)
			jobs[g] = append(jobs[g], j)
		}
	}
	rounds := c.Scale(300, 3000)
	var wg sync.WaitGroup
	var parsed int64
	var bad atomic.Value
	for g := 0; g < G; g++ {
		wg.Add(1)
		go func(g int) {
			defer wg.Done()
			defer func() {
				if r := recover(); r != nil {
					bad.Store(fmt.Sprintf("panic in a concurrent parse: %v", r))
				}
			}()
			for i := 0; i < rounds; i++ {
				j := jobs[g][i%len(jobs[g])]
				if got := show(xp.ParseESDTTransfers(j.snd, j.rcv, j.fn, j.args)); got != j.want {
					bad.Store(fmt.Sprintf("ParseESDTTransfers of %s gives %s while other goroutines parse other messages, alone it gives %s", truncate(j.dataStr, 200), got, j.want))
				}
				if f, a, err := cp.ParseData(j.dataStr); err != nil || f != j.fn || !argsEqual(a, j.args) {
					bad.Store("ParseData of " + truncate(j.dataStr, 200) + " differs while other goroutines parse other data")
				}
				atomic.AddInt64(&parsed, 2)
			}
		}(g)
	}
	wg.Wait()
	if msg, ok := bad.Load().(string); ok {
		R.Violate("C19:shared-parser", msg, nil)
	}
	R.CoverN("C19/shared-parser-parses", parsed)
	R.Eval(int(parsed))
}

func flagModel() porcupine.Model {
	// Flag: Set() returns the previous value; Toggle(true) is a Set whose result is not reported
	// (recorded with B=true as a marker that cannot be distinguished, so the model accepts either
	// previous value for an output of true only when the recorded op came from Toggle; to stay
	// sound the model accepts B==true always and checks B==false strictly).
	return porcupine.Model{
		Init: func() interface{} { return int64(0) },
		Step: func(state, input, output interface{}) (bool, interface{}) {
			in, out := input.(regIn), output.(regOut)
			st := state.(int64)
			switch in.Op {
			case "flagset":
				if !out.B && st == 1 {
					return false, state // Set() said "was not set" while it was
				}
				return true, int64(1)
			case "flagunset":
				return true, int64(0)
			case "isset":
				return out.B == (st == 1), state
			}
			return false, state
		},
		DescribeOperation: func(input, output interface{}) string { return fmt.Sprintf("%+v -> %+v", input, output) },
	}
}

// ---------------------------------------------------------------------------------------------
// stress: all functions through one shared container, concurrently with reconfiguration

func c19Stress(c *harness.Ctx) {
	R := c.R
	SA := world.GasMapFrom(func(_, _ string, i int) uint64 { return 1000 + uint64(i)*13 })
	SB := world.GasMapFrom(func(_, _ string, i int) uint64 { return 900000 + uint64(i)*7919 })
	w, err := world.New(world.Config{NumShards: 2, GasMap: SA, ActivationEpoch: 2, DNS: [][]byte{gen.UserAddr(9, 0)}})
	if err != nil {
		panic(err)
	}
	e := uint32(2)
	w.ConfirmEpoch(e)
	sh := w.Shards[0]
	G := 8 + c.Batch%9
	dur := time.Duration(c.Scale(2500, 12000)) * time.Millisecond
	tokens := [][]byte{[]byte("T"), []byte("TK-1"), []byte("TOKEN-12"), []byte("LONGTOKEN-ab")}
	// per goroutine accounts, set up single-threaded through the real functions
	type actor struct{ me, peer, far []byte }
	actors := make([]actor, G)
	var gasCreated func(fn string, provided, left uint64)
	call := func(fnName string, snd, dst *world.Account, in *vmcommon.ContractCallInput) (*vmcommon.VMOutput, error) {
		fn, err := sh.Container.Get(fnName)
		if err != nil {
			return nil, err
		}
		var s, d vmcommon.UserAccountHandler
		if snd != nil {
			s = snd
		}
		if dst != nil {
			d = dst
		}
		in.Function = fnName
		out, err := fn.ProcessBuiltinFunction(s, d, in)
		// whatever the interleaving with schedule changes, no execution ends with more gas than it
		// was given (a cost read twice - once for the check, once for the charge - wraps here)
		if err == nil && out != nil {
			left := out.GasRemaining
			for _, oa := range out.OutputAccounts {
				if oa != nil {
					for _, ot := range oa.OutputTransfers {
						if left+ot.GasLimit < left {
							left = ^uint64(0)
						} else {
							left += ot.GasLimit
						}
					}
				}
			}
			if left > in.GasProvided && gasCreated != nil {
				gasCreated(fnName, in.GasProvided, left)
			}
		}
		return out, err
	}
	mkIn := func(caller, rcv []byte, gas uint64, args ...[]byte) *vmcommon.ContractCallInput {
		return &vmcommon.ContractCallInput{VMInput: vmcommon.VMInput{CallerAddr: caller, Arguments: args, CallValue: new(big.Int), GasProvided: gas}, RecipientAddr: rcv}
	}
	for g := 0; g < G; g++ {
		a := actor{me: gen.UserAddr(20+g, 0), peer: gen.UserAddr(60+g, 0), far: gen.UserAddr(100+g, 1)}
		actors[g] = a
		me := sh.Get(a.me)
		for _, t := range tokens {
			roles := [][]byte{t}
			for _, r := range gen.AllRoles {
				roles = append(roles, []byte(r))
			}
			call(FSetRole, nil, me, mkIn(gen.SysSC, a.me, 0, roles...))
			call(FTransfer, nil, me, mkIn(gen.SysSC, a.me, 0, t, gen.Pow2(80).Bytes()))
			call(FNFTCreate, me, me, mkIn(a.me, a.me, 1<<50, t, gen.Pow2(70).Bytes(), []byte("n"), gen.Big(1), []byte("h"), []byte("a"), []byte("u")))
		}
		k := sh.Get(gen.ContractAddr(30+g, 0))
		k.Owner = append([]byte{}, a.me...)
		k.DevReward = big.NewInt(1 << 40)
	}
	w.Concurrent = true
	var delays int64
	w.Delay = func(kind string) {
		if kind == world.KRetrieve || kind == world.KMarshal {
			if atomic.AddInt64(&delays, 1)%7 == 0 {
				runtime.Gosched()
			}
		}
		if kind == world.KLoad {
			// the load of the destination account: stretch it now and then, it sits between the
			// read of the base cost and the read of the per-byte price
			if atomic.AddInt64(&delays, 1)%3 == 0 {
				time.Sleep(300 * time.Microsecond)
			} else {
				runtime.Gosched()
			}
		}
	}
	cost := func(m map[string]map[string]uint64, f string) uint64 {
		if v, ok := m[vmcommon.BuiltInCostString][f]; ok {
			return v
		}
		return m[vmcommon.BaseOperationCostString][f]
	}
	stop := make(chan struct{})
	var wg sync.WaitGroup
	var calls, changes, epochs int64
	var vmu sync.Mutex
	report := func(sig, what string) {
		vmu.Lock()
		R.Violate(sig, what, nil)
		vmu.Unlock()
	}
	gasCreated = func(fn string, provided, left uint64) {
		report("C19:gas-created-under-reconfiguration:"+fn, fmt.Sprintf("%s was given %d gas and ended with %d (remaining + forwarded) while schedules were changing", fn, provided, left))
	}
	covers := make([]map[string]int64, G)
	for g := 0; g < G; g++ {
		covers[g] = map[string]int64{}
		wg.Add(1)
		go func(g int) {
			defer wg.Done()
			a := actors[g]
			me, peer := sh.Get(a.me), sh.Get(a.peer)
			k := sh.Get(gen.ContractAddr(30+g, 0))
			rg := c.Rand("stress").Fork(uint64(g))
			seq := 0
			var lastPayload, t2 []byte // payload of the last cross-shard NFT message this goroutine emitted
			priced := func(name string, gas uint64, out *vmcommon.VMOutput, err error, a, b uint64) {
				if err != nil || out == nil {
					return
				}
				fw := node.Forwarded(out)
				cons := gas - out.GasRemaining - fw
				if cons != a && cons != b {
					report("C19:mixed-schedule:"+name, fmt.Sprintf("%s was charged %d, neither the price under schedule A (%d) nor under schedule B (%d)", name, cons, a, b))
				}
				covers[g]["C19/priced-executions:"+name]++
			}
			for {
				select {
				case <-stop:
					return
				default:
				}
				seq++
				t := tokens[rg.Intn(len(tokens))]
				gas := uint64(1) << 50
				if seq%4 == 3 {
					// enough under the cheap schedule, too little under the expensive one: a call
					// that checks against one and charges by the other would end above what it got
					gas = 60000
				}
				switch rg.Intn(29) {
				case 0:
					call(FTransfer, me, peer, mkIn(a.me, a.peer, gas, t, gen.Big(1)))
				case 1:
					call(FTransfer, peer, me, mkIn(a.peer, a.me, gas, t, gen.Big(1)))
				case 2:
					call(FTransfer, me, nil, mkIn(a.me, a.far, gas, t, gen.Big(1)))
				case 3:
					call(FLocalMint, me, me, mkIn(a.me, a.me, gas, t, gen.Big(5)))
				case 4:
					call(FLocalBurn, me, me, mkIn(a.me, a.me, gas, t, gen.Big(1)))
				case 5:
					call(FBurn, me, nil, mkIn(a.me, gen.SysSC, gas, t, gen.Big(1)))
				case 6:
					in := mkIn(a.me, a.me, gas, t, gen.Big(1), []byte("name"), gen.Big(5), []byte("hash"), rg.Bytes(rg.Intn(30)), []byte("uri"))
					out, err := call(FNFTCreate, me, me, in)
					tot := sumLen(in.Arguments)
					priced(FNFTCreate, gas, out, err, cost(SA, "ESDTNFTCreate")+tot*cost(SA, "StorePerByte"), cost(SB, "ESDTNFTCreate")+tot*cost(SB, "StorePerByte"))
				case 7:
					call(FNFTAddQty, me, me, mkIn(a.me, a.me, gas, t, gen.U64(1), gen.Big(1)))
				case 8:
					call(FNFTBurn, me, me, mkIn(a.me, a.me, gas, t, gen.U64(1), gen.Big(1)))
				case 9:
					in := mkIn(a.me, a.me, gas, t, gen.U64(1), rg.Bytes(1+rg.Intn(9)))
					// keep the URI list short: replace attributes more often than adding URIs
					if seq%40 == 0 {
						out, err := call(FNFTAddURI, me, me, in)
						n := uint64(len(in.Arguments[2]))
						priced(FNFTAddURI, gas, out, err, cost(SA, "ESDTNFTAddURI")+n*cost(SA, "StorePerByte"), cost(SB, "ESDTNFTAddURI")+n*cost(SB, "StorePerByte"))
					}
				case 10:
					in := mkIn(a.me, a.me, gas, t, gen.U64(1), rg.Bytes(rg.Intn(20)))
					out, err := call(FNFTUpdAttr, me, me, in)
					n := uint64(len(in.Arguments[2]))
					priced(FNFTUpdAttr, gas, out, err, cost(SA, "ESDTNFTUpdateAttributes")+n*cost(SA, "StorePerByte"), cost(SB, "ESDTNFTUpdateAttributes")+n*cost(SB, "StorePerByte"))
				case 11:
					call(FNFTXfer, me, me, mkIn(a.me, a.me, gas, t, gen.U64(1), gen.Big(1), a.peer))
				case 12: // cross shard: priced by own cost + payload bytes
					inF := mkIn(a.me, a.me, gas, t, gen.U64(1), gen.Big(1), a.far)
					if seq%2 == 1 {
						inF.CallType = []vmcommon.CallType{vmcommon.ESDTTransferAndExecute, vmcommon.AsynchronousCall, vmcommon.AsynchronousCallBack}[(seq/2)%3]
					}
					out, err := call(FNFTXfer, me, me, inF)
					if err == nil && out != nil {
						n := uint64(0)
						for _, oa := range out.OutputAccounts {
							for _, ot := range oa.OutputTransfers {
								if _, args, e := node.Tokenize(string(ot.Data)); e == nil && len(args) >= 4 {
									n = uint64(len(args[3]))
									lastPayload, t2 = args[3], t
								}
							}
						}
						priced(FNFTXfer, gas, out, err, cost(SA, "ESDTNFTTransfer")+n*cost(SA, "DataCopyPerByte"), cost(SB, "ESDTNFTTransfer")+n*cost(SB, "DataCopyPerByte"))
					}
				case 13: // same shard: own cost x 2 + data-copy price x payload bytes, payload = the entry with the destination's new total
					out, err := call(FMulti, me, me, mkIn(a.me, a.me, gas, a.peer, gen.Big(2), t, []byte{}, gen.Big(1), t, gen.U64(1), gen.Big(1)))
					if err == nil && out != nil {
						if v := peer.Peek([]byte(node.StorageKey(t, 1))); len(v) > 0 {
							n := uint64(len(v)) // what was marshalled for the gas computation is what was stored at the destination
							priced(FMulti+"-same-shard", gas, out, err, 2*cost(SA, "ESDTNFTMultiTransfer")+n*cost(SA, "DataCopyPerByte"), 2*cost(SB, "ESDTNFTMultiTransfer")+n*cost(SB, "DataCopyPerByte"))
						}
					}
				case 23: // same-shard single NFT transfer, priced likewise
					inX := mkIn(a.me, a.me, gas, t, gen.U64(1), gen.Big(1), a.peer)
					if seq%2 == 0 {
						inX.CallType = []vmcommon.CallType{vmcommon.ESDTTransferAndExecute, vmcommon.AsynchronousCall, vmcommon.AsynchronousCallBack}[(seq/2)%3] // every call type is priced alike
					}
					out, err := call(FNFTXfer, me, me, inX)
					if err == nil && out != nil {
						if v := peer.Peek([]byte(node.StorageKey(t, 1))); len(v) > 0 {
							n := uint64(len(v))
							priced(FNFTXfer+"-same-shard", gas, out, err, cost(SA, "ESDTNFTTransfer")+n*cost(SA, "DataCopyPerByte"), cost(SB, "ESDTNFTTransfer")+n*cost(SB, "DataCopyPerByte"))
						}
					}
				case 14:
					out, err := call(FMulti, me, me, mkIn(a.me, a.me, gas, a.far, gen.Big(2), t, []byte{}, gen.Big(1), t, gen.U64(1), gen.Big(1)))
					if err == nil && out != nil {
						n := uint64(0)
						for _, oa := range out.OutputAccounts {
							for _, ot := range oa.OutputTransfers {
								if _, args, e := node.Tokenize(string(ot.Data)); e == nil && len(args) >= 7 {
									n = uint64(len(args[6]))
								}
							}
						}
						priced(FMulti, gas, out, err, 2*cost(SA, "ESDTNFTMultiTransfer")+n*cost(SA, "DataCopyPerByte"), 2*cost(SB, "ESDTNFTMultiTransfer")+n*cost(SB, "DataCopyPerByte"))
					}
				case 15: // fresh key each time: store change = len(value)
					key := []byte(fmt.Sprintf("key-%d-%d", g, seq))
					val := rg.Bytes(1 + rg.Intn(20))
					out, err := call(FSaveKV, me, me, mkIn(a.me, a.me, gas, key, val))
					p, s := uint64(len(key)+len(val)), uint64(len(val))
					priced(FSaveKV, gas, out, err, cost(SA, "SaveKeyValue")+p*cost(SA, "PersistPerByte")+s*cost(SA, "StorePerByte"), cost(SB, "SaveKeyValue")+p*cost(SB, "PersistPerByte")+s*cost(SB, "StorePerByte"))
					me.Poke(key, nil)
				case 16:
					call(FFreeze, nil, peer, mkIn(gen.SysSC, a.peer, 0, t))
					call(FUnFreeze, nil, peer, mkIn(gen.SysSC, a.peer, 0, t))
				case 17:
					call(FSetRole, nil, peer, mkIn(gen.SysSC, a.peer, 0, t, []byte(RoleMint)))
					call(FUnSetRole, nil, peer, mkIn(gen.SysSC, a.peer, 0, t, []byte(RoleMint)))
				case 18:
					if g == 0 {
						call(FPause, nil, nil, mkIn(gen.SysSC, gen.SysAcc, 0, []byte("PAUSED-ONLY")))
						call(FUnPause, nil, nil, mkIn(gen.SysSC, gen.SysAcc, 0, []byte("PAUSED-ONLY")))
					}
				case 19:
					call(FChgOwner, me, k, mkIn(a.me, k.Addr, gas, a.me))
				case 20:
					call(FClaim, me, k, mkIn(a.me, k.Addr, gas))
					k.DevReward = big.NewInt(1 << 40)
				case 21:
					call(FSetName, nil, peer, mkIn(gen.UserAddr(9, 0), a.peer, gas, []byte("nm")))
					peer.UserName = nil
				case 22:
					call(FHandOver, nil, me, mkIn(gen.SysSC, a.me, 0, t, a.peer))
					call(FHandOver, nil, peer, mkIn(gen.SysSC, a.peer, 0, t, a.me))
				case 24: // destination legs (no sender account): they read the prices too
					call(FTransfer, nil, peer, mkIn(a.me, a.peer, gas, t, gen.Big(1)))
					call(FTransfer, nil, k, mkIn(a.me, k.Addr, gas, t, gen.Big(1), []byte("fn"), []byte{1}))
					in := mkIn(a.me, k.Addr, 10, t, gen.Big(1), []byte("fn"))
					in.CallType = vmcommon.AsynchronousCallBack
					call(FTransfer, nil, k, in)
					call(FChgOwner, nil, k, mkIn(a.me, k.Addr, gas, a.me))
					call(FClaim, nil, k, mkIn(a.me, k.Addr, gas))
					k.DevReward = big.NewInt(1 << 40)
					if len(lastPayload) > 0 {
						call(FNFTXfer, nil, peer, mkIn(a.me, a.peer, gas, t2, gen.U64(1), gen.Big(1), lastPayload))
						call(FNFTXfer, nil, k, mkIn(a.me, k.Addr, gas, t2, gen.U64(1), gen.Big(1), lastPayload, []byte("fn")))
						call(FMulti, nil, peer, mkIn(a.me, a.peer, gas, gen.Big(2), t2, []byte{0}, gen.Big(1), t2, gen.U64(1), lastPayload))
					}
				case 25, 26, 27:
					// payability is decided per call: a plain transfer to this goroutine's contract (not
					// payable) is refused whatever the other goroutines are doing at that moment -
					// among them transfers that carry a call and are exempt from the question
					notCredited := func(name string, out *vmcommon.VMOutput, err error) {
						if err == nil && out != nil {
							report("C19:non-payable-credited-under-concurrency:"+name, name+": a plain transfer to a contract that is not payable succeeded while other goroutines were executing exempt transfers on the same function object")
						}
						covers[g]["C19/plain-transfers-to-non-payable:"+name]++
					}
					if rg.Bool() {
						call(FNFTXfer, me, me, mkIn(a.me, a.me, gas, t, gen.U64(1), gen.Big(1), k.Addr, []byte("fn")))
						call(FMulti, me, me, mkIn(a.me, a.me, gas, k.Addr, gen.Big(1), t, gen.U64(1), gen.Big(1), []byte("fn")))
						call(FTransfer, nil, k, mkIn(a.me, k.Addr, gas, t, gen.Big(1), []byte("fn")))
					} else {
						out, err := call(FNFTXfer, me, me, mkIn(a.me, a.me, gas, t, gen.U64(1), gen.Big(1), k.Addr))
						notCredited(FNFTXfer, out, err)
						out, err = call(FMulti, me, me, mkIn(a.me, a.me, gas, k.Addr, gen.Big(1), t, gen.U64(1), gen.Big(1)))
						notCredited(FMulti, out, err)
						out, err = call(FTransfer, nil, k, mkIn(a.me, k.Addr, gas, t, gen.Big(1)))
						notCredited(FTransfer, out, err)
					}
				default:
					call(FWipe, nil, peer, mkIn(gen.SysSC, a.peer, 0, []byte("NOT-HELD")))
				}
				atomic.AddInt64(&calls, 1)
			}
		}(g)
	}
	// schedule changer
	wg.Add(1)
	go func() {
		defer wg.Done()
		for i := 0; ; i++ {
			select {
			case <-stop:
				return
			default:
			}
			// SB, SA, SB, SA, ... and every fifth change repeats the schedule in force (a change that
			// changes nothing is a change all the same)
			k := i - i/5
			if i%5 == 4 {
				k--
			}
			if k%2 == 0 {
				sh.Factory.GasScheduleChange(world.CloneGasMap(SB))
			} else {
				sh.Factory.GasScheduleChange(world.CloneGasMap(SA))
			}
			atomic.AddInt64(&changes, 1)
			if i%7 == 3 {
				// the setter is public: a nil configuration is ignored by every function
				for _, name := range AllFuncs {
					if fn, err := sh.Container.Get(name); err == nil {
						fn.SetNewGasConfig(nil)
					}
				}
			}
			time.Sleep(200 * time.Microsecond)
		}
	}()
	// the container's owner adds and removes a function of its own while all this goes on (the
	// schedule changer may find a name in its snapshot of the keys that is gone a moment later)
	wg.Add(1)
	go func() {
		defer wg.Done()
		for i := 0; ; i++ {
			select {
			case <-stop:
				return
			default:
			}
			_ = sh.Container.Add("ownerFunction", &stubFn{id: i})
			if i%3 == 0 {
				_ = sh.Container.Replace("ownerFunction", &stubFn{id: -i})
			}
			sh.Container.Remove("ownerFunction")
			time.Sleep(50 * time.Microsecond)
		}
	}()
	// epoch notifier + IsActive readers
	wg.Add(1)
	go func() {
		defer wg.Done()
		for i := uint32(0); ; i++ {
			select {
			case <-stop:
				return
			default:
			}
			for _, s := range sh.Subs {
				s.EpochConfirmed(2+i%3, 0) // stays >= activation so that the gated functions keep working
			}
			atomic.AddInt64(&epochs, 1)
			time.Sleep(300 * time.Microsecond)
		}
	}()
	for k := 0; k < 2; k++ {
		wg.Add(1)
		go func() {
			defer wg.Done()
			for {
				select {
				case <-stop:
					return
				default:
				}
				for _, name := range AllFuncs {
					if fn, err := sh.Container.Get(name); err == nil {
						if !fn.IsActive() {
							report("C19:inactive-during-stress:"+name, name+" reported inactive although every confirmed epoch was >= its activation epoch")
						}
					}
				}
				_ = sh.Container.Len()
				_ = sh.Container.Keys()
				time.Sleep(100 * time.Microsecond)
			}
		}()
	}
	time.Sleep(dur)
	close(stop)
	// every goroutine finishes its current operation (microseconds) and leaves. One that has not
	// left a full minute after the stop is blocked for good: a lock taken and never released
	done := make(chan struct{})
	go func() { wg.Wait(); close(done) }()
	select {
	case <-done:
	case <-time.After(60 * time.Second):
		buf := make([]byte, 1<<20)
		buf = buf[:runtime.Stack(buf, true)]
		var stuck []string
		for _, g := range strings.Split(string(buf), "\n\n") {
			if strings.Contains(g, "/repo/") && (strings.Contains(g, "sync.(*RWMutex)") || strings.Contains(g, "sync.(*Mutex)") || strings.Contains(g, "semacquire")) {
				stuck = append(stuck, truncate(g, 900))
			}
		}
		if len(stuck) > 0 {
			R.Violate("C19:blocked-forever", fmt.Sprintf("%d goroutines are still blocked on a lock inside the library 60 s after the stress stopped (a lock that is never released):\n%s", len(stuck), stuck[0]), nil)
		} else {
			R.Note("stress goroutines did not finish within 60 s, none blocked inside the library")
		}
		return
	}
	for _, m := range covers {
		for k, v := range m {
			R.CoverN(k, v)
		}
	}
	R.CoverN("C19/stress-calls", calls)
	R.CoverN("C19/schedule-changes", changes)
	R.CoverN("C19/epoch-notifications", epochs)
	R.Eval(int(calls))
	// quiescent check: state still decodes
	w.Concurrent = false
	for _, a := range actors {
		for _, t := range tokens {
			acc := sh.Get(a.me)
			if v := acc.Peek([]byte(node.KeyPrefix + string(t))); len(v) > 0 {
				if _, err := refcodec.DecodeToken(v); err != nil {
					R.Violate("C19:state-corrupted", fmt.Sprintf("after the stress the entry %q of a goroutine's own account does not decode", node.KeyPrefix+string(t)), nil)
				}
			}
		}
	}
}
