package props

import (
	"bytes"
	"fmt"
	"math/big"
	"sort"
	"strings"

	vmcommon "github.com/ElrondNetwork/elrond-vm-common"
	"verif/internal/node"
	"verif/internal/refcodec"
	"verif/internal/world"
)

// Function names (protocol literals, written out here on purpose: C18 compares the registry
// against this list).
const (
	FClaim      = "ClaimDeveloperRewards"
	FChgOwner   = "ChangeOwnerAddress"
	FSetName    = "SetUserName"
	FSaveKV     = "SaveKeyValue"
	FTransfer   = "ESDTTransfer"
	FBurn       = "ESDTBurn"
	FFreeze     = "ESDTFreeze"
	FUnFreeze   = "ESDTUnFreeze"
	FWipe       = "ESDTWipe"
	FPause      = "ESDTPause"
	FUnPause    = "ESDTUnPause"
	FSetRole    = "ESDTSetRole"
	FUnSetRole  = "ESDTUnSetRole"
	FLocalMint  = "ESDTLocalMint"
	FLocalBurn  = "ESDTLocalBurn"
	FNFTCreate  = "ESDTNFTCreate"
	FNFTAddQty  = "ESDTNFTAddQuantity"
	FNFTBurn    = "ESDTNFTBurn"
	FNFTXfer    = "ESDTNFTTransfer"
	FHandOver   = "ESDTNFTCreateRoleTransfer"
	FNFTAddURI  = "ESDTNFTAddURI"
	FNFTUpdAttr = "ESDTNFTUpdateAttributes"
	FMulti      = "MultiESDTNFTTransfer"
)

var AllFuncs = []string{FClaim, FChgOwner, FSetName, FSaveKV, FTransfer, FBurn, FFreeze, FUnFreeze, FWipe, FPause, FUnPause, FSetRole, FUnSetRole,
	FLocalMint, FLocalBurn, FNFTCreate, FNFTAddQty, FNFTBurn, FNFTXfer, FHandOver, FNFTAddURI, FNFTUpdAttr, FMulti}

const (
	RoleMint    = "ESDTRoleLocalMint"
	RoleBurn    = "ESDTRoleLocalBurn"
	RoleCreate  = "ESDTRoleNFTCreate"
	RoleAddQty  = "ESDTRoleNFTAddQuantity"
	RoleNFTBurn = "ESDTRoleNFTBurn"
	RoleAddURI  = "ESDTRoleNFTAddURI"
	RoleUpdAttr = "ESDTRoleNFTUpdateAttributes"
)

var sysSC = string(vmcommon.ESDTSCAddress)
var sysAcc = string(vmcommon.SystemAccountAddress)

func isSys(addr []byte) bool { return string(addr) == sysSC }

func u64(b []byte) uint64 { return new(big.Int).SetBytes(b).Uint64() }
func bigOf(b []byte) *big.Int {
	return new(big.Int).SetBytes(b)
}

// ---------------------------------------------------------------------------------------------
// Balance deltas of a leg

type akey struct {
	Addr string
	Key  string
}

func (k akey) String() string {
	return fmt.Sprintf("%s/%q", node.ShortAddr([]byte(k.Addr)), k.Key)
}

// tokenDeltas returns the per (account, token key) balance delta of a committed diff, for
// non-system accounts. Undecodable entries are reported through bad.
func tokenDeltas(diff []world.Change) (deltas map[akey]*big.Int, touched map[akey]world.Change, bad []string) {
	deltas = map[akey]*big.Int{}
	touched = map[akey]world.Change{}
	for _, ch := range diff {
		if ch.Field != "storage" || !strings.HasPrefix(ch.Key, node.KeyPrefix) || ch.Addr == sysAcc {
			continue
		}
		k := akey{ch.Addr, ch.Key}
		touched[k] = ch
		var o, n *big.Int = new(big.Int), new(big.Int)
		if len(ch.Old) > 0 {
			t, err := refcodec.DecodeToken(ch.Old)
			if err != nil {
				bad = append(bad, fmt.Sprintf("old entry at %s undecodable", k))
				continue
			}
			o = t.Amount()
		}
		if len(ch.New) > 0 {
			t, err := refcodec.DecodeToken(ch.New)
			if err != nil {
				bad = append(bad, fmt.Sprintf("new entry at %s undecodable", k))
				continue
			}
			n = t.Amount()
		}
		d := new(big.Int).Sub(n, o)
		if d.Sign() != 0 {
			deltas[k] = d
		}
	}
	return
}

func fmtDeltas(m map[akey]*big.Int) string {
	var ks []akey
	for k := range m {
		ks = append(ks, k)
	}
	sort.Slice(ks, func(i, j int) bool { return ks[i].Addr+ks[i].Key < ks[j].Addr+ks[j].Key })
	var sb strings.Builder
	sb.WriteString("{")
	for _, k := range ks {
		fmt.Fprintf(&sb, " %s:%s", k, m[k])
	}
	sb.WriteString(" }")
	return sb.String()
}

func deltasEqual(a, b map[akey]*big.Int) bool {
	if len(a) != len(b) {
		return false
	}
	for k, v := range a {
		w, ok := b[k]
		if !ok || v.Cmp(w) != 0 {
			return false
		}
	}
	return true
}

func addDelta(m map[akey]*big.Int, k akey, d *big.Int) {
	if d.Sign() == 0 {
		return
	}
	if cur, ok := m[k]; ok {
		cur.Add(cur, d)
		if cur.Sign() == 0 {
			delete(m, k)
		}
		return
	}
	m[k] = new(big.Int).Set(d)
}

// preEntry decodes the entry an account had before the leg.
func preEntry(l *node.Leg, shard uint32, addr, key string) (*refcodec.Token, bool) {
	if l.Pre == nil || int(shard) >= len(l.Pre.Shards) {
		return nil, false
	}
	a := l.Pre.Shards[shard][addr]
	if a == nil {
		return nil, false
	}
	v := a.Storage[key]
	if len(v) == 0 {
		return nil, false
	}
	t, err := refcodec.DecodeToken(v)
	if err != nil {
		return nil, false
	}
	return t, true
}

func liveEntry(w *world.World, addr []byte, key string) (*refcodec.Token, bool) {
	a := w.AccountIfExists(addr)
	if a == nil {
		return nil, false
	}
	v := a.Storage[key]
	if len(v) == 0 {
		return nil, false
	}
	t, err := refcodec.DecodeToken(v)
	if err != nil {
		return nil, false
	}
	return t, true
}

// ---------------------------------------------------------------------------------------------
// Shadow state: maintained from calls and their success, never copied from storage.

type rkey struct {
	Addr  string
	Token string
}

type Shadow struct {
	NumShards uint32
	// C01
	Ledger map[string]*big.Int // storage key -> total supply (accounts + in flight)
	// C03
	Roles map[rkey]map[string]bool
	// C04
	Frozen     map[akey]bool      // (account, token key) frozen by the system contract
	FrozenSnap map[akey]*snapshot // entry at freeze time (nil'ed by exempt changes)
	Paused     map[uint32]map[string]bool
	// C07
	Issued     map[string]map[uint64]bool // token -> nonces issued
	MaxIssued  map[string]uint64
	Counter    map[rkey]uint64   // (account, token) -> nonce counter held
	InFlightH  map[string]uint64 // token -> counter travelling in an undelivered hand-over (present = in flight)
	InFlightTo map[string]string
	// C08
	Meta    map[akey]*refcodec.MetaData           // (holder, token key) -> metadata it must carry
	MsgMeta map[int]map[string]*refcodec.MetaData // message id -> token key -> metadata carried
}

type snapshot struct {
	exists bool
	value  *big.Int
	meta   *refcodec.MetaData
}

func NewShadow(numShards uint32) *Shadow {
	s := &Shadow{NumShards: numShards, Ledger: map[string]*big.Int{}, Roles: map[rkey]map[string]bool{}, Frozen: map[akey]bool{}, FrozenSnap: map[akey]*snapshot{},
		Paused: map[uint32]map[string]bool{}, Issued: map[string]map[uint64]bool{}, MaxIssued: map[string]uint64{}, Counter: map[rkey]uint64{},
		InFlightH: map[string]uint64{}, InFlightTo: map[string]string{}, Meta: map[akey]*refcodec.MetaData{}, MsgMeta: map[int]map[string]*refcodec.MetaData{}}
	for i := uint32(0); i < numShards; i++ {
		s.Paused[i] = map[string]bool{}
	}
	return s
}

func (s *Shadow) HasRole(addr []byte, token []byte, role string) bool {
	return s.Roles[rkey{string(addr), string(token)}][role]
}

func (s *Shadow) ledgerAdd(key string, d *big.Int) {
	cur, ok := s.Ledger[key]
	if !ok {
		cur = new(big.Int)
		s.Ledger[key] = cur
	}
	cur.Add(cur, d)
}

// isHandOverDelivery: the leg executes the message emitted by a legitimate hand-over first leg.
func isHandOverDelivery(l *node.Leg) bool {
	return l.Msg != nil && l.Call.Func == FHandOver && l.Msg.Origin != nil && isSys(l.Msg.Origin.Caller) && l.Msg.Origin.Func == FHandOver && !l.Msg.TxItself
}

// Update advances the shadow state with a leg. It must be called AFTER the monitors judged it.
func (s *Shadow) Update(n *node.Node, l *node.Leg) {
	if !l.OK {
		return
	}
	c := l.Call
	a := c.Args
	fromSys := isSys(c.Caller)
	switch c.Func {
	case FTransfer, FNFTXfer, FMulti:
		// issuance by the system contract creates supply by the stated amount; other transfer
		// legs move tokens (ledger unchanged)
		if fromSys && l.Msg == nil && c.Func == FTransfer && len(l.Moves) == 1 {
			s.ledgerAdd(l.Moves[0].Key(), l.Moves[0].Qty)
		} else if fromSys && l.Msg == nil {
			// NFT / multi "issuance" from the system contract does not exist in the protocol; the
			// ledger follows what happened so that conservation keeps judging transfers only
			s.followActual(l)
		}
		s.updateMetaOnTransfer(n, l)
	default:
		// supply functions are judged by C02; the conservation ledger follows the actual deltas
		s.followActual(l)
	}
	switch c.Func {
	case FSetRole:
		if fromSys && len(a) >= 1 {
			k := rkey{string(c.Recipient), string(a[0])}
			if s.Roles[k] == nil {
				s.Roles[k] = map[string]bool{}
			}
			for _, r := range a[1:] {
				s.Roles[k][string(r)] = true
			}
		}
	case FUnSetRole:
		if fromSys && len(a) >= 1 {
			k := rkey{string(c.Recipient), string(a[0])}
			for _, r := range a[1:] {
				delete(s.Roles[k], string(r))
			}
		}
	case FFreeze, FUnFreeze:
		if fromSys && len(a) == 1 {
			k := akey{string(c.Recipient), node.KeyPrefix + string(a[0])}
			if c.Func == FFreeze {
				if !s.Frozen[k] {
					snap := &snapshot{}
					if t, ok := preEntry(l, l.Shard, k.Addr, k.Key); ok {
						snap.exists, snap.value, snap.meta = true, t.Amount(), t.Meta
					}
					s.FrozenSnap[k] = snap
				}
				s.Frozen[k] = true
			} else {
				delete(s.Frozen, k)
				delete(s.FrozenSnap, k)
			}
		}
	case FWipe:
		if fromSys && len(a) == 1 {
			k := akey{string(c.Recipient), node.KeyPrefix + string(a[0])}
			delete(s.Frozen, k)
			delete(s.FrozenSnap, k)
		}
	case FPause, FUnPause:
		if fromSys && len(a) == 1 {
			if c.Func == FPause {
				s.Paused[l.Shard][node.KeyPrefix+string(a[0])] = true
			} else {
				delete(s.Paused[l.Shard], node.KeyPrefix+string(a[0]))
			}
		}
	case FNFTCreate:
		if len(a) >= 7 {
			tok := string(a[0])
			k := rkey{string(c.Caller), tok}
			s.Counter[k]++
			nn := s.Counter[k]
			if s.Issued[tok] == nil {
				s.Issued[tok] = map[uint64]bool{}
			}
			s.Issued[tok][nn] = true
			if nn > s.MaxIssued[tok] {
				s.MaxIssued[tok] = nn
			}
			roy := uint32(u64(a[3]))
			md := &refcodec.MetaData{Nonce: nn, Name: a[2], Creator: c.Caller, Royalties: roy, Hash: a[4], Attributes: a[5], URIs: a[6:]}
			s.Meta[akey{string(c.Caller), node.StorageKey(a[0], nn)}] = md.Clone()
		}
	case FHandOver:
		if fromSys && l.Msg == nil && len(a) == 2 {
			tok := string(a[0])
			old := rkey{string(c.Recipient), tok}
			carried := s.Counter[old]
			delete(s.Counter, old)
			delete(s.Roles[old], RoleCreate)
			nk := rkey{string(a[1]), tok}
			if world.ComputeShard(s.NumShards, a[1]) == l.Shard {
				s.Counter[nk] = carried
				s.grant(nk, RoleCreate)
			} else {
				s.InFlightH[tok] = carried
				s.InFlightTo[tok] = string(a[1])
			}
		} else if isHandOverDelivery(l) && len(a) == 2 {
			tok := string(a[0])
			nk := rkey{string(c.Recipient), tok}
			if carried, ok := s.InFlightH[tok]; ok && s.InFlightTo[tok] == string(c.Recipient) {
				s.Counter[nk] = carried
				delete(s.InFlightH, tok)
				delete(s.InFlightTo, tok)
			}
			s.grant(nk, RoleCreate)
		}
	case FNFTAddURI:
		if len(a) >= 3 {
			k := akey{string(c.Caller), node.StorageKey(a[0], u64(a[1]))}
			if md := s.Meta[k]; md != nil {
				md = md.Clone()
				for _, x := range a[2:] {
					md.URIs = append(md.URIs, append([]byte{}, x...))
				}
				s.Meta[k] = md
			}
		}
	case FNFTUpdAttr:
		if len(a) == 3 {
			k := akey{string(c.Caller), node.StorageKey(a[0], u64(a[1]))}
			if md := s.Meta[k]; md != nil {
				md = md.Clone()
				md.Attributes = append([]byte{}, a[2]...)
				s.Meta[k] = md
			}
		}
	}
	// an exempt change to a frozen entry (refund, wipe) invalidates the freeze-time snapshot
	for _, ch := range l.Diff {
		if ch.Field == "storage" && strings.HasPrefix(ch.Key, node.KeyPrefix) {
			k := akey{ch.Addr, ch.Key}
			if s.Frozen[k] && c.Func != FFreeze && c.Func != FUnFreeze {
				if snap := s.FrozenSnap[k]; snap != nil {
					delete(s.FrozenSnap, k)
				}
			}
			// metadata registry: entries that disappear are forgotten
			if len(ch.New) == 0 {
				delete(s.Meta, k)
			}
		}
	}
}

func (s *Shadow) grant(k rkey, role string) {
	if s.Roles[k] == nil {
		s.Roles[k] = map[string]bool{}
	}
	s.Roles[k][role] = true
}

func (s *Shadow) followActual(l *node.Leg) {
	deltas, _, _ := tokenDeltas(l.Diff)
	for k, d := range deltas {
		s.ledgerAdd(k.Key, d)
	}
}

// updateMetaOnTransfer moves the metadata registry along with the tokens of a committed
// transfer leg: the destination carries what the sender carried.
func (s *Shadow) updateMetaOnTransfer(n *node.Node, l *node.Leg) {
	if len(l.Moves) == 0 || l.LogicalDst == nil {
		return
	}
	for _, mv := range l.Moves {
		if mv.Nonce == 0 {
			continue
		}
		key := mv.Key()
		if l.Msg != nil {
			id := l.Msg.ID
			if l.Msg.IsRefund {
				id = l.Msg.RefundOf
			}
			if md := s.MsgMeta[id][key]; md != nil {
				s.Meta[akey{string(l.Msg.To), key}] = md.Clone()
			}
			continue
		}
		md := s.Meta[akey{string(l.Call.Caller), key}]
		if md == nil {
			continue
		}
		if world.ComputeShard(s.NumShards, l.LogicalDst) == l.Shard {
			s.Meta[akey{string(l.LogicalDst), key}] = md.Clone()
		} else {
			for _, m := range l.Emitted {
				if m.Kind == node.MsgContinuation {
					if s.MsgMeta[m.ID] == nil {
						s.MsgMeta[m.ID] = map[string]*refcodec.MetaData{}
					}
					s.MsgMeta[m.ID][key] = md.Clone()
				}
			}
		}
	}
}

// ---------------------------------------------------------------------------------------------
// helpers on states

func sameBytes(a, b []byte) bool { return bytes.Equal(a, b) }

func hasRoleInStorage(w *world.World, addr []byte, token []byte, role string) bool {
	a := w.AccountIfExists(addr)
	if a == nil {
		return false
	}
	rs, err := refcodec.DecodeRoles(a.Storage[node.RolePrefix+string(token)])
	if err != nil {
		return false
	}
	for _, r := range rs {
		if string(r) == role {
			return true
		}
	}
	return false
}

func counterInStorage(w *world.World, addr []byte, token []byte) uint64 {
	a := w.AccountIfExists(addr)
	if a == nil {
		return 0
	}
	return u64(a.Storage[node.NoncePrefix+string(token)])
}
