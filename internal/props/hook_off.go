//go:build !verif

package props

import vmcommon "github.com/ElrondNetwork/elrond-vm-common"

const hooksEnabled = false

type prefixState map[string]struct{}

func observePrefixes(c vmcommon.BuiltInFunctionContainer) prefixState               { return prefixState{} }
func comparePrefixes(first prefixState, c vmcommon.BuiltInFunctionContainer) string { return "" }
func prefixCount(first prefixState) int                                             { return 0 }
