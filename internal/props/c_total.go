package props

import (
	"bytes"
	"fmt"
	"math/big"
	"sort"
	"strings"

	vmcommon "github.com/ElrondNetwork/elrond-vm-common"
	"verif/internal/gen"
	"verif/internal/harness"
	"verif/internal/node"
	"verif/internal/world"
)

// C11 (totality), C13 (determinism, input untouched), C15 (well-formed state).

func init() {
	harness.Register(&harness.Property{
		ID: "C11", Level: "exploration",
		Rule:             "cases = grammar-based adversarial argument lists for all 23 functions (0..12 items: empty, 00.., 8- and 9-byte integers, 2^64-1, the residues n with 3n+c small mod 2^64, token ids truncated/extended so that id‖nonce aliases another live key, 31/32/33-byte addresses, system-account and metachain addresses, role names) on worlds evolved by random-walk prefixes; every gas class, call type and reachable account-presence pattern on the sender side; destination legs only for protocol-generated messages and refunds; directed count-residue and aliasing cases. Oracles: recovered panic / child death, result shape, heap bytes allocated during the call vs 128 KiB + 128 x (argument bytes + 64 per storage read) (runtime.ReadMemStats around the call, single-threaded child under RLIMIT_AS). Non-trivial = the call passes the first argument checks (reaches a dependency); distinct = (function, side, #args, outcome class, first error) + hostile environments: every base call under a refusing / failing payability oracle x gas {0,1,40,ample} x 4 call types, every emitted message delivered starved {0,1,40} x {plain, flagged refund}; two different (id, nonce) pairs aliasing one key at the destination.",
		Assumptions:      append([]string{"T8: inputs a transaction cannot produce are not explored (nil CallValue, hand-crafted destination-leg messages)"}, commonAssumptions...),
		Batches:          tierN(8, 32),
		DeathIsViolation: true,
		MemLimitMB:       4096,
		Floors:           map[string]int64{"C11/leg:*": 20000, "C11/deep-leg:*": 3000, "C11/directed-residue-cases": 40, "C11/directed-wide-integer-cases": 800},
		Run:              runC11,
	})
	harness.Register(&harness.Property{
		ID: "C13", Level: "exploration", RaceInThorough: true,
		Rule:        "cases = every leg of seeded random walks (all 23 functions, adversarial calls included) and of the scenario library, executed three times on equal states: on the walk's own container, on a reused twin container in another goroutine after an unrelated call on the same function objects, and on a freshly built container; oracle: byte-identical Canonical(VMOutput) ‖ error presence ‖ Canonical(world); input deep-compared after every call (arguments laid out in one backing array with sentinel-filled spare capacity); hidden-state hook: every []byte field of the function objects keeps content, length, capacity and spare backing memory. Thorough also runs under the race detector. Non-trivial = committed leg; distinct = (function, side, outcome) and world digests + the directed transfer matrix (padded numbers, contract senders) under the input comparison; configuration path \"schedule change while the gated functions are inactive\".",
		Assumptions: commonAssumptions,
		Batches:     tierN(8, 16),
		Floors:      map[string]int64{"C13/replayed-legs": 5000, "C13/committed-replayed:*": 1500, "C13/prefix-fields-observed": 10, "C13/configuration-path-checks": 150},
		Run:         runC13,
	})
	harness.Register(&harness.Property{
		ID: "C15", Level: "exploration",
		Rule:        "cases = long seeded random walks (well-formedness scan of every account changed by every leg + full scan at the end) and EVERY sequence of depth <= 3 (quick) / 4 (thorough) over 42 operation templates on a 2-shard, 3-account, 2-token universe (exhaustive over that bounded space); oracle: every protocol entry decodes (reference codec), balance > 0 or entry absent (zero only with the frozen bit), fungible entries without metadata, NFT entries with metadata nonce = key nonce, key layouts, no duplicate roles and counter >= highest issued nonce under system-contract discipline. Non-trivial = committed leg; distinct = reachable world digests",
		Assumptions: commonAssumptions,
		Batches:     tierN(16, 32),
		Floors:      map[string]int64{"C15/token-entry-checked": 20000, "C15/role-entry-checked": 5000, "C15/enum-sequences": 30000},
		Run:         runC15,
	})
}

// ---------------------------------------------------------------------------------------------
// C11

func runC11(c *harness.Ctx) {
	R := c.R
	onLeg := func(u *gen.Universe, m *Mon, l *node.Leg) {
		if l.NoFunc || l.Inactive {
			return
		}
		cls := "rejected-early"
		if l.OK {
			cls = "ok"
		} else if len(l.Deps) > 0 {
			cls = "rejected-deep"
		}
		if cls != "rejected-early" {
			R.Cover("C11/deep-leg:" + l.Call.Func + ":" + sideName(l))
		}
		e := ""
		if l.Err != nil {
			e = l.Err.Error()
			if len(e) > 40 {
				e = e[:40]
			}
		}
		R.DistinctS("C11", l.Call.Func, sideName(l), fmt.Sprint(len(l.Call.Args)), cls, e)
	}
	r := c.Rand("c11")
	walks := c.Scale(200, 1500)
	for i := 0; i < walks; i++ {
		w := NewWalk(r.Fork(uint64(i)), R, WalkOpts{Steps: c.Scale(150, 300), Hostile: 75, OnLeg: onLeg, FlipPayable: i%2 == 1, PadNumbers: i%4 == 3, Reconfigure: i%3 == 2}, "C11")
		w.U.N.MeasureAlloc = true
		w.Run()
		R.Eval(w.U.N.Seq())
		if i == 0 {
			var h []string
			for _, x := range w.M.History {
				if strings.Contains(x, "err=") && len(h) < 6 {
					h = append(h, truncate(x, 300))
				}
			}
			sample(c, map[string]interface{}{"hostile_legs": h})
		}
	}
	// directed: count residues at the count position, on both sender forms; aliasing ids
	residues := []uint64{6148914691236517205, 6148914691236517206, 12297829382473034410, 12297829382473034411, ^uint64(0), ^uint64(0) / 3, ^uint64(0)/3 + 1, 1 << 63, 1<<32 + 1, 1 << 40}
	for ri, n := range residues {
		if !mine(c, ri) {
			continue
		}
		for nargs := 2; nargs <= 12; nargs++ {
			s := NewScn(c.Rand("c11d").Fork(uint64(ri*100+nargs)), R, ScnOpts{Shards: 2, Enabled: []string{"C11"}})
			s.U.N.MeasureAlloc = true
			for _, dst := range [][]byte{s.Same, s.Other} {
				args := [][]byte{dst, gen.U64(n)}
				for len(args) < nargs {
					args = append(args, s.F1, []byte{}, gen.Big(1))
				}
				args = args[:nargs]
				l := s.U.N.Exec(node.Call{Func: FMulti, Caller: s.A, Recipient: s.A, Args: args, Gas: gen.BigGas})
				onLeg(s.U, s.M, l)
				// with all the gas there is (the product count x cost wraps as well)
				onLeg(s.U, s.M, s.U.N.Exec(node.Call{Func: FMulti, Caller: s.A, Recipient: s.A, Args: args, Gas: ^uint64(0)}))
				// count wider than 64 bits with the same low word
				args2 := append([][]byte{}, args...)
				args2[1] = append([]byte{7}, gen.U64(n)...)
				onLeg(s.U, s.M, s.U.N.Exec(node.Call{Func: FMulti, Caller: s.A, Recipient: s.A, Args: args2, Gas: ^uint64(0)}))
				drain(s.U.N)
				R.Cover("C11/directed-residue-cases")
			}
			R.Eval(s.U.N.Seq())
		}
	}
	// directed: every argument of every function's typical successful call replaced by integers
	// wider than 64 bits (low word zero / small / all ones), by empty and by 33-byte items
	wide := [][]byte{append([]byte{1}, make([]byte, 8)...), append([]byte{0}, gen.U64(1)...), append(append([]byte{1}, make([]byte, 8)...), make([]byte, 24)...),
		make([]byte, 9), bytes.Repeat([]byte{0xff}, 9), append(make([]byte, 32), 1), {}, append([]byte{1}, gen.U64(1)...), append([]byte{2}, make([]byte, 16)...)}
	{
		probe := NewScn(c.Rand("c11w"), harness.NewReporter("x"), ScnOpts{Shards: 2})
		nBase := len(baseCalls(probe))
		for bi := 0; bi < nBase; bi++ {
			if !mine(c, bi) {
				continue
			}
			for wi, wv := range wide {
				s := NewScn(c.Rand("c11w").Fork(uint64(bi*100+wi)), R, ScnOpts{Shards: 2, Enabled: []string{"C11"}})
				s.U.N.MeasureAlloc = true
				s.U.SetRoles(s.A, s.F1, RoleAddQty, RoleNFTBurn, RoleAddURI, RoleUpdAttr, RoleCreate)
				base := baseCalls(s)[bi]
				for ai := range base.Args {
					call := base
					call.Args = append([][]byte{}, base.Args...)
					call.Args[ai] = wv
					var l *node.Leg
					if isSys(call.Caller) && (call.Func == FPause || call.Func == FUnPause) {
						l = s.U.N.ExecAt(0, call)
					} else {
						l = s.U.N.Exec(call)
					}
					onLeg(s.U, s.M, l)
					drain(s.U.N)
					R.Cover("C11/directed-wide-integer-cases")
				}
				R.Eval(s.U.N.Seq())
			}
		}
	}
	// directed: hostile ENVIRONMENTS - every base call under a payability oracle that refuses or
	// fails for every destination, with too little gas, under every call type; and every message
	// it emits delivered with too little gas and as a flagged refund
	{
		probe := NewScn(c.Rand("c11e"), harness.NewReporter("x"), ScnOpts{Shards: 2})
		nBase := len(baseCalls(probe))
		gases := []uint64{0, 1, 40, gen.BigGas}
		i := 0
		for bi := 0; bi < nBase; bi++ {
			for _, ans := range []int{world.PayNo, world.PayErr} {
				for gi, gas := range gases {
					i++
					if !mine(c, i) {
						continue
					}
					for _, ct := range []vmcommon.CallType{vmcommon.DirectCall, vmcommon.AsynchronousCall, vmcommon.AsynchronousCallBack, vmcommon.ESDTTransferAndExecute} {
						s := NewScn(c.Rand("c11e").Fork(uint64(i)), R, ScnOpts{Shards: 2, Enabled: []string{"C11"}})
						s.U.SetRoles(s.A, s.F1, RoleAddQty, RoleNFTBurn, RoleAddURI, RoleUpdAttr, RoleCreate)
						for _, d := range [][]byte{s.Same, s.Other, s.KSame, s.KOther, s.A} {
							s.U.W.Payable[string(d)] = ans
						}
						call := baseCalls(s)[bi]
						call.CallType = ct
						if !isSys(call.Caller) {
							call.Gas = gas
						}
						var l *node.Leg
						if isSys(call.Caller) && (call.Func == FPause || call.Func == FUnPause) {
							l = s.U.N.ExecAt(0, call)
						} else {
							l = s.U.N.Exec(call)
						}
						onLeg(s.U, s.M, l)
						if gi == len(gases)-1 {
							// the emitted messages, starved and flagged
							for _, m := range append([]*node.Message{}, s.U.N.Pool...) {
								for _, g := range []uint64{0, 1, 40} {
									for _, flag := range []bool{false, true} {
										m2 := *m
										m2.Gas, m2.RetAfterErr = g, flag
										if dl := s.U.N.DeliverMsg(&m2); dl != nil {
											onLeg(s.U, s.M, dl)
										}
										R.Cover("C11/directed-starved-deliveries")
									}
								}
							}
						}
						drain(s.U.N)
						R.Cover("C11/directed-hostile-environment-cases")
						R.Eval(s.U.N.Seq())
					}
				}
			}
		}
	}
	// directed: two DIFFERENT (identifier, nonce) pairs that concatenate to the same storage key,
	// one held by the destination, the other arriving
	if mine(c, 5) {
		for v := 0; v < 16; v++ {
			S := uint32(1 + v%2)
			s := NewScn(c.Rand("c11k").Fork(uint64(v)), R, ScnOpts{Shards: S, Enabled: []string{"C11"}})
			dst := s.Same
			if v%2 == 1 {
				dst = s.Other
			}
			s.U.W.Account(s.A).Poke([]byte(node.NoncePrefix+string(s.SFT)), gen.U64(257))
			s.U.Create(s.A, s.SFT, 7, "n258", "h258", "", 1, "u")
			s.U.N.Exec(gen.NFTTransferCall(s.A, dst, s.SFT, 258, big.NewInt(7), gen.BigGas))
			drain(s.U.N)
			x1 := append(append([]byte{}, s.SFT...), 1)
			s.U.SetRoles(s.A, x1, RoleCreate, RoleAddQty)
			s.U.W.Account(s.A).Poke([]byte(node.NoncePrefix+string(x1)), gen.U64(1))
			hash := "h258"
			if (v/2)%2 == 1 {
				hash = "other"
			}
			s.U.Create(s.A, x1, 3, "x1", hash, "", 1, "u")
			var call node.Call
			if (v/4)%2 == 0 {
				call = gen.NFTTransferCall(s.A, dst, x1, 2, big.NewInt(1), gen.BigGas)
			} else {
				call = gen.MultiCall(s.A, dst, []gen.Item{{ID: s.F1, Nonce: 0, Qty: big.NewInt(1)}, {ID: x1, Nonce: 2, Qty: big.NewInt(1)}}, gen.BigGas)
			}
			if v/8 == 1 {
				call.Args = append(call.Args, []byte("fn"))
			}
			onLeg(s.U, s.M, s.U.N.Exec(call))
			for _, dl := range drain(s.U.N) {
				onLeg(s.U, s.M, dl)
			}
			R.Cover("C11/directed-destination-alias-cases")
			R.Eval(s.U.N.Seq())
		}
	}
	// directed: role lists with DUPLICATES and empty / unknown role names in every arrangement (all of
	// them reachable through ESDTSetRole calls and hand-over arrivals, whatever discipline the system
	// contract keeps), then every operation that reads or rewrites the list
	if mine(c, 7) {
		C, Q, B := []byte(RoleCreate), []byte(RoleAddQty), []byte(RoleNFTBurn)
		lists := [][][]byte{{C, C}, {C, Q, C}, {Q, C, C}, {C, C, Q}, {C, C, C}, {Q, Q}, {C, Q, C, Q}, {{}, C, {}}, {[]byte("x"), C, []byte("x"), C}, {B, C, B, Q, B}}
		for li, list := range lists {
			for v := 0; v < 6; v++ {
				s := NewScn(c.Rand("c11r").Fork(uint64(li*10+v)), R, ScnOpts{Shards: 2, Enabled: []string{"C11"}})
				who := s.Same
				// one role per call, so that the stored order is exactly the order of the list; the
				// first Create may also arrive by a hand-over
				for k, role := range list {
					if k == 0 && bytes.Equal(role, C) && v%2 == 1 {
						onLeg(s.U, s.M, s.U.HandOver(s.A, who, s.SFT))
						for _, dl := range drain(s.U.N) {
							onLeg(s.U, s.M, dl)
						}
						continue
					}
					onLeg(s.U, s.M, s.U.N.Exec(node.Call{Func: FSetRole, Caller: gen.SysSC, Recipient: who, Args: [][]byte{s.SFT, role}}))
				}
				var l *node.Leg
				switch v {
				case 0, 1:
					l = s.U.N.Exec(node.Call{Func: FUnSetRole, Caller: gen.SysSC, Recipient: who, Args: [][]byte{s.SFT, C}})
				case 2:
					l = s.U.N.Exec(node.Call{Func: FUnSetRole, Caller: gen.SysSC, Recipient: who, Args: [][]byte{s.SFT, Q, C, B, C}})
				case 3:
					l = s.U.HandOver(who, s.Other, s.SFT)
				case 4:
					l = s.U.HandOver(who, s.A, s.SFT)
				default:
					l = s.U.N.Exec(gen.SelfCall(FNFTCreate, who, gen.BigGas, s.SFT, gen.Big(2), []byte("n"), gen.Big(1), []byte("h"), []byte("a"), []byte("u")))
				}
				onLeg(s.U, s.M, l)
				for _, dl := range drain(s.U.N) {
					onLeg(s.U, s.M, dl)
				}
				onLeg(s.U, s.M, s.U.N.Exec(node.Call{Func: FUnSetRole, Caller: gen.SysSC, Recipient: who, Args: [][]byte{s.SFT, C, C, Q}}))
				R.Cover("C11/directed-duplicate-role-cases")
				R.Eval(s.U.N.Seq())
			}
		}
	}
	// directed: a FUNGIBLE token whose identifier is another token's identifier followed by a nonce
	// byte, sent to an account that holds that NFT (one storage key for both), by every transfer form
	if mine(c, 6) {
		for v := 0; v < 12; v++ {
			S := uint32(1 + v%2)
			s := NewScn(c.Rand("c11f").Fork(uint64(v)), R, ScnOpts{Shards: S, Enabled: []string{"C11"}})
			x := append(append([]byte{}, s.SFT...), 1) // fungible id = SFT id || 0x01; A holds (SFT, nonce 1)
			from := s.Same
			if v%2 == 1 {
				from = s.Other
			}
			s.U.Issue(from, x, big.NewInt(100))
			var call node.Call
			switch (v / 2) % 3 {
			case 0:
				call = gen.MultiCall(from, s.A, []gen.Item{{ID: x, Nonce: 0, Qty: big.NewInt(1)}}, gen.BigGas)
			case 1:
				call = gen.MultiCall(from, s.A, []gen.Item{{ID: s.F1, Nonce: 0, Qty: big.NewInt(0)}, {ID: x, Nonce: 0, Qty: big.NewInt(2)}}, gen.BigGas)
			default:
				call = gen.TransferCall(from, s.A, x, big.NewInt(1), gen.BigGas)
			}
			if v >= 6 {
				call.RetAfterErr = true
			}
			onLeg(s.U, s.M, s.U.N.Exec(call))
			for _, dl := range drain(s.U.N) {
				onLeg(s.U, s.M, dl)
			}
			R.Cover("C11/directed-fungible-onto-nft-alias-cases")
			R.Eval(s.U.N.Seq())
		}
	}
	if mine(c, 3) {
		aliasCases(c, []string{"C11"})
		// aliasing through the metadata operations (needs the role for the truncated id, which the
		// system contract may well give: ids are arbitrary bytes to the library)
		for v := 0; v < 6; v++ {
			s := NewScn(c.Rand("c11a").Fork(uint64(v)), R, ScnOpts{Shards: 1, Enabled: []string{"C11"}})
			f := s.F1
			trunc, last := f[:len(f)-1], f[len(f)-1:]
			s.U.SetRoles(s.A, trunc, gen.AllRoles...)
			fn := []string{FNFTAddURI, FNFTUpdAttr, FNFTAddQty, FNFTBurn, FNFTXfer, FMulti}[v]
			switch fn {
			case FNFTXfer:
				s.U.N.Exec(gen.NFTTransferCall(s.A, s.Same, trunc, uint64(last[0]), big.NewInt(1), gen.BigGas))
			case FMulti:
				s.U.N.Exec(gen.MultiCall(s.A, s.Same, []gen.Item{{ID: trunc, Nonce: uint64(last[0]), Qty: big.NewInt(1)}}, gen.BigGas))
			default:
				s.U.N.Exec(gen.SelfCall(fn, s.A, gen.BigGas, trunc, last, []byte{1}))
			}
			R.Cover("C11/directed-alias-cases")
			R.Eval(s.U.N.Seq())
		}
	}
	for v := 0; v < 4; v++ {
		if mine(c, 4+v) {
			growthHistory(c, v, 2, "C11")
		}
	}
}

// baseCalls: one typical successful call per function and form, in a funded scenario world.
func baseCalls(s *Scn) []node.Call {
	att := [][]byte{[]byte("doWork"), {1}}
	sys := func(fn string, rcv []byte, args ...[]byte) node.Call {
		return node.Call{Func: fn, Caller: gen.SysSC, Recipient: rcv, Args: args}
	}
	return []node.Call{
		s.Xfer("T", s.A, s.Same, "f"), s.Xfer("T", s.A, s.KOther, "f", att...),
		s.Xfer("N", s.A, s.Same, "s"), s.Xfer("N", s.A, s.Other, "s"), s.Xfer("N", s.A, s.KSame, "n", att...),
		s.Xfer("M", s.A, s.Same, "fs"), s.Xfer("M", s.A, s.Other, "fsn"), s.Xfer("M", s.A, s.KOther, "sf", att...),
		{Func: FBurn, Caller: s.A, Recipient: gen.SysSC, Args: [][]byte{s.F1, gen.Big(5)}, Gas: gen.BigGas},
		gen.SelfCall(FLocalMint, s.A, gen.BigGas, s.F1, gen.Big(7)),
		gen.SelfCall(FLocalBurn, s.A, gen.BigGas, s.F1, gen.Big(7)),
		gen.SelfCall(FNFTCreate, s.A, gen.BigGas, s.SFT, gen.Big(3), []byte("name"), gen.Big(100), []byte("hash"), []byte("attrs"), []byte("uri1"), []byte("uri2")),
		gen.SelfCall(FNFTAddQty, s.A, gen.BigGas, s.SFT, gen.U64(1), gen.Big(5)),
		gen.SelfCall(FNFTBurn, s.A, gen.BigGas, s.SFT, gen.U64(1), gen.Big(2)),
		gen.SelfCall(FNFTAddURI, s.A, gen.BigGas, s.SFT, gen.U64(1), []byte("uri3"), []byte("uri4")),
		gen.SelfCall(FNFTUpdAttr, s.A, gen.BigGas, s.SFT, gen.U64(1), []byte("new-attrs")),
		{Func: FSaveKV, Caller: s.A, Recipient: s.A, Args: [][]byte{[]byte("k1"), []byte("v1"), []byte("k2"), []byte("v2")}, Gas: gen.BigGas},
		{Func: FChgOwner, Caller: s.A, Recipient: s.KSame, Args: [][]byte{s.Same}, Gas: gen.BigGas},
		{Func: FChgOwner, Caller: s.A, Recipient: s.KOther, Args: [][]byte{s.Same}, Gas: gen.BigGas},
		{Func: FClaim, Caller: s.A, Recipient: s.KSame, Args: [][]byte{{1}}, Gas: gen.BigGas},
		{Func: FSetName, Caller: s.U.DNS, Recipient: gen.UserAddr(5, s.U.DNS[31]), Args: [][]byte{[]byte("alice")}, Gas: gen.BigGas},
		{Func: FSetName, Caller: s.U.DNS, Recipient: gen.UserAddr(5, byte((uint32(s.U.DNS[31])+1)%s.U.W.NumShards)), Args: [][]byte{[]byte("bob")}, Gas: gen.BigGas},
		sys(FTransfer, s.Same, s.F1, gen.Big(5)),
		sys(FSetRole, s.Same, s.F1, []byte(RoleMint), []byte(RoleBurn)),
		sys(FUnSetRole, s.A, s.F1, []byte(RoleMint), []byte(RoleBurn)),
		sys(FFreeze, s.A, s.F1), sys(FUnFreeze, s.A, s.F1), sys(FWipe, s.A, s.F1),
		sys(FPause, gen.SysAcc, s.F1), sys(FUnPause, gen.SysAcc, s.F1),
		sys(FHandOver, s.A, s.SFT, s.Same), sys(FHandOver, s.A, s.SFT, s.Other),
		// the NFT operations naming a FUNGIBLE token the caller holds (rejected: no metadata)
		gen.NFTTransferCall(s.A, s.Same, s.F1, 1, big.NewInt(1), gen.BigGas), gen.NFTTransferCall(s.A, s.Other, s.F1, 1, big.NewInt(1), gen.BigGas),
		gen.MultiCall(s.A, s.Same, []gen.Item{{ID: s.F1, Nonce: 1, Qty: big.NewInt(1)}, {ID: s.F2, Nonce: 0, Qty: big.NewInt(1)}}, gen.BigGas),
		gen.SelfCall(FNFTAddQty, s.A, gen.BigGas, s.F1, gen.U64(1), gen.Big(5)),
		gen.SelfCall(FNFTBurn, s.A, gen.BigGas, s.F1, gen.U64(1), gen.Big(2)),
		gen.SelfCall(FNFTAddURI, s.A, gen.BigGas, s.F1, gen.U64(1), []byte("uri3")),
		gen.SelfCall(FNFTUpdAttr, s.A, gen.BigGas, s.F1, gen.U64(1), []byte("new-attrs")),
	}
}

// ---------------------------------------------------------------------------------------------
// C13

func canonOutput(o *vmcommon.VMOutput, err error) string {
	var sb strings.Builder
	fmt.Fprintf(&sb, "err=%v|", err != nil)
	if o == nil {
		sb.WriteString("nil-output")
		return sb.String()
	}
	fmt.Fprintf(&sb, "rc=%d msg=%q gas=%d refund=%v rd[", o.ReturnCode, o.ReturnMessage, o.GasRemaining, o.GasRefund)
	for _, d := range o.ReturnData {
		fmt.Fprintf(&sb, "%x,", d)
	}
	sb.WriteString("] oa{")
	keys := make([]string, 0, len(o.OutputAccounts))
	for k := range o.OutputAccounts {
		keys = append(keys, k)
	}
	sort.Strings(keys)
	for _, k := range keys {
		fmt.Fprintf(&sb, "%x=>", k)
		if a := o.OutputAccounts[k]; a != nil {
			sb.WriteString(canonOutAcc(a))
		} else {
			sb.WriteString("nil")
		}
		sb.WriteString(";")
	}
	fmt.Fprintf(&sb, "} del=%x touched=%x logs[", o.DeletedAccounts, o.TouchedAccounts)
	for _, lg := range o.Logs {
		if lg == nil {
			sb.WriteString("nil;")
			continue
		}
		fmt.Fprintf(&sb, "(%x %x %x %x);", lg.Identifier, lg.Address, lg.Topics, lg.Data)
	}
	sb.WriteString("]")
	return sb.String()
}

// handedOut: an output a call returned, with its canonical form at that moment.
type handedOut struct {
	out   *vmcommon.VMOutput
	canon string
	fn    string
}

type twin struct {
	u     *gen.Universe
	first []prefixState
}

func newTwin(w *world.World) *twin {
	cw, err := w.Clone()
	if err != nil {
		panic(err)
	}
	t := &twin{u: &gen.Universe{W: cw, N: node.New(cw)}}
	t.u.N.NoScribble = true
	for _, sh := range cw.Shards {
		t.first = append(t.first, observePrefixes(sh.Container))
	}
	return t
}

func (t *twin) replay(l *node.Leg, inGoroutine bool) (*node.Leg, string) {
	t.u.W.Restore(l.Pre)
	for k, v := range l.PayableAt {
		t.u.W.Payable[k] = v
	}
	var rl *node.Leg
	if inGoroutine {
		done := make(chan struct{})
		go func() {
			defer close(done)
			rl = t.u.N.Replay(l)
		}()
		<-done
	} else {
		rl = t.u.N.Replay(l)
	}
	return rl, canonOutput(rl.Out, rl.Err) + "||" + string(t.u.W.Canonical())
}

func runC13(c *harness.Ctx) {
	R := c.R
	r := c.Rand("c13")
	walks := c.Scale(50, 300)
	if c.Race {
		walks = c.Scale(4, 30)
	}
	for i := 0; i < walks; i++ {
		var reused, fresh *twin
		var firstMain []prefixState
		var handed []*handedOut
		count := 0
		onLeg := func(u *gen.Universe, m *Mon, l *node.Leg) {
			if l.NoFunc || l.Inactive || l.Pre == nil {
				return
			}
			if reused == nil {
				reused = newTwin(u.W)
				for _, sh := range u.W.Shards {
					firstMain = append(firstMain, observePrefixes(sh.Container))
					R.CoverN("C13/prefix-fields-observed", int64(prefixCount(firstMain[len(firstMain)-1])))
				}
			}
			count++
			if fresh == nil || count%25 == 0 || len(fresh.u.W.SchedHist) != len(u.W.SchedHist) || len(fresh.u.W.EpochHist) != len(u.W.EpochHist) {
				fresh = newTwin(u.W)
			}
			// the reused twin follows the configuration history of the walk
			for len(reused.u.W.SchedHist) < len(u.W.SchedHist) {
				reused.u.W.GasScheduleChange(u.W.SchedHist[len(reused.u.W.SchedHist)])
			}
			for len(reused.u.W.EpochHist) < len(u.W.EpochHist) {
				reused.u.W.ConfirmEpoch(u.W.EpochHist[len(reused.u.W.EpochHist)])
			}
			orig := canonOutput(l.Out, l.Err) + "||" + string(u.W.Canonical())
			// an unrelated call on the same function object of the reused twin first
			if fn, err := reused.u.W.Shards[l.Shard].Container.Get(l.Call.Func); err == nil {
				func() {
					defer func() { _ = recover() }()
					other := reused.u.W.Shards[l.Shard].Get(gen.UserAddr(7, byte(l.Shard)))
					fn.ProcessBuiltinFunction(other, other, &vmcommon.ContractCallInput{VMInput: vmcommon.VMInput{CallerAddr: other.Addr, CallValue: new(big.Int),
						Arguments: [][]byte{[]byte("UNRELATED-TOKEN-IDENTIFIER-LONGER-THAN-OTHERS"), {1}, {1}, other.Addr, {1}, {1}, {1}}, GasProvided: 1 << 50}, RecipientAddr: other.Addr, Function: l.Call.Func})
				}()
			}
			rl1, c1 := reused.replay(l, true)
			// the caller owns what it was given back and updates it in place (the VM merges output
			// accounts into one another); the third execution comes after that
			node.ScribbleOutput(rl1.Out)
			rl2, c2 := fresh.replay(l, false)
			// what earlier calls handed out must not change through later calls on the same objects
			for _, h := range handed {
				if now := canonOutput(h.out, nil); now != h.canon {
					m.viol("C13", "earlier-output-changed:"+l.Call.Func, fmt.Sprintf("the output an earlier call (%s) returned changed while a later call ran on the same function objects:\n %s", h.fn, truncate(diffAt(h.canon, now), 600)), l)
					h.canon = now
				}
			}
			if rl2.Out != nil && rl2.Err == nil {
				handed = append(handed, &handedOut{out: rl2.Out, canon: canonOutput(rl2.Out, nil), fn: l.Call.Func})
				if len(handed) > 4 {
					handed = handed[1:]
				}
				R.Cover("C13/earlier-outputs-rechecked")
			}
			if c1 != orig || c2 != orig {
				which, other := "reused container in another goroutine after an unrelated call", c1
				if c1 == orig {
					which, other = "freshly built container", c2
				}
				m.viol("C13", "nondeterministic:"+l.Call.Func+":"+sideName(l), fmt.Sprintf("re-executing the same call on an equal state (%s) gives a different result:\n first: %s\n again: %s", which, truncate(diffAt(orig, other), 700), ""), l)
			}
			// hidden state
			for si, sh := range u.W.Shards {
				if d := comparePrefixes(firstMain[si], sh.Container); d != "" {
					m.viol("C13", "shared-prefix-written", "a byte-slice field of a function object changed: "+d, l)
				}
			}
			if d := comparePrefixes(reused.first[l.Shard], reused.u.W.Shards[l.Shard].Container); d != "" {
				m.viol("C13", "shared-prefix-written", "a byte-slice field of a function object changed: "+d, l)
			}
			R.Cover("C13/replayed-legs")
			if l.OK {
				R.Cover("C13/committed-replayed:" + l.Call.Func)
			}
			R.DistinctS("C13", l.Call.Func, sideName(l), fmt.Sprint(l.OK))
		}
		w := NewWalk(r.Fork(uint64(i)), R, WalkOpts{Steps: c.Scale(90, 150), Hostile: 20, OnLeg: onLeg, RecordPayable: true, Reconfigure: true, PadNumbers: i%2 == 1}, "C13")
		w.Run()
		R.Eval(w.U.N.Seq() * 3)
		R.Distinct(w.U.W.Digest())
		if i == 0 {
			sample(c, map[string]interface{}{"walk_tail": w.M.History[len(w.M.History)-5:], "executions_per_leg": 3})
		}
	}
	// memory BEHIND the length of an argument is not input: the same calls with the spare capacity of
	// every argument filled with different bytes must give identical results (keys that are proper
	// prefixes of the protected prefix and of protocol keys, identifiers cut short, short addresses)
	if mine(c, 4) {
		protoKey := "ELRONDesdtFUNA-a1b2c3"
		var results map[string]string
		for _, fill := range []byte{0xEE, 0x00, 'D', 'e', 0xff} {
			node.Sentinel = fill
			cur := map[string]string{}
			s := NewScn(c.Rand("c13mem"), R, ScnOpts{Shards: 1, Enabled: []string{"C13"}})
			for n := 1; n <= len(protoKey); n++ {
				l := s.U.N.Exec(node.Call{Func: FSaveKV, Caller: s.A, Recipient: s.A, Args: [][]byte{[]byte(protoKey[:n]), []byte("v")}, Gas: gen.BigGas})
				cur[fmt.Sprint("savekv-prefix-", n)] = canonOutput(l.Out, l.Err)
			}
			for n := 1; n <= len(s.F1); n++ {
				l := s.U.N.Exec(gen.TransferCall(s.A, s.Same, s.F1[:n], big.NewInt(1), gen.BigGas))
				cur[fmt.Sprint("transfer-id-prefix-", n)] = canonOutput(l.Out, l.Err)
				l = s.U.N.Exec(gen.NFTTransferCall(s.A, s.Same[:n], s.SFT, 1, big.NewInt(1), gen.BigGas))
				cur[fmt.Sprint("nft-short-destination-", n)] = canonOutput(l.Out, l.Err)
			}
			cur["world"] = string(s.U.W.Canonical())
			if results == nil {
				results = cur
			} else {
				for k, v := range cur {
					if results[k] != v {
						s.M.viol("C13", "depends-on-memory-behind-argument", fmt.Sprintf("case %s gives a different result when the spare capacity behind the arguments is filled with %02x instead of ee: %s", k, fill, truncate(diffAt(results[k], v), 400)), &node.Leg{Call: node.Call{Func: "spare-capacity-variants"}})
					}
				}
			}
			R.Cover("C13/spare-capacity-fill-variants")
			R.Eval(s.U.N.Seq())
		}
		node.Sentinel = 0xEE
	}
	// the directed transfer matrix (call types, contract senders, attached calls, numbers with
	// leading zero bytes): the input must come back untouched from every leg
	if !c.Race {
		transferMatrix(c, []string{"C13"}, func(s *Scn, l *node.Leg, tag string) {
			if l != nil && l.Input != nil {
				R.Cover("C13/matrix-legs-input-compared")
			}
		})
	}
	// growth histories (long URI lists, 520 creates, long and overlapping role lists) under the input
	// comparison
	if !c.Race {
		for v := 0; v < 4; v++ {
			if mine(c, 1+v) {
				growthHistory(c, v, 2, "C13")
			}
		}
	}
	// the scenario library, with schedule changes and epoch notifications as configuration
	for si, sc := range Scenarios() {
		if !mine(c, si) {
			continue
		}
		var results []string
		for rep := 0; rep < 3; rep++ {
			s := scnFor(c, sc, nil, "C13")
			s.U.W.GasScheduleChange(world.GasMapFrom(gasSchedules[1]))
			s.U.W.ConfirmEpoch(5)
			l := sc.Exec(s, gen.BigGas)
			if l == nil {
				continue
			}
			results = append(results, canonOutput(l.Out, l.Err)+"||"+string(s.U.W.Canonical()))
			if rep > 0 && results[rep] != results[0] {
				s.M.viol("C13", "nondeterministic:"+sc.Func+":scenario", fmt.Sprintf("scenario %s gives different results on equal worlds: %s", sc.Name, truncate(diffAt(results[0], results[rep]), 600)), l)
			}
			R.Cover("C13/scenario-repeats")
		}
		// equal configuration reached along different paths: a container built with schedule S0 and
		// then changed to S' must behave like a container built with S' directly; likewise for
		// epoch notification histories ending in the same epoch
		S0 := world.GasMapFrom(gasSchedules[0])
		for v := 0; v < 4; v++ {
			S1 := world.CloneGasMap(S0)
			for sec, m := range S1 {
				for k := range m {
					if v >= 2 || (v == 0 && sec == vmcommon.BaseOperationCostString) || (v == 1 && sec == vmcommon.BuiltInCostString) {
						m[k] = m[k]*3 + 11
					}
				}
			}
			// variant 3: the schedule changes while the epoch-gated functions are still inactive
			sa := NewScn(c.Rand("scn").Fork(harness.Hash64(sc.Name)), R, ScnOpts{Shards: sc.Shards, GasMap: S0, Enabled: []string{"C13"}, LateActivation: v == 3})
			if v != 3 {
				sa.U.W.ConfirmEpoch(1)
			}
			sa.U.W.GasScheduleChange(S1)
			sa.U.W.ConfirmEpoch(7)
			sa.U.W.ConfirmEpoch(5)
			la := sc.Exec(sa, gen.BigGas)
			sb := NewScn(c.Rand("scn").Fork(harness.Hash64(sc.Name)), R, ScnOpts{Shards: sc.Shards, GasMap: S1, Enabled: []string{"C13"}})
			sb.U.W.ConfirmEpoch(5)
			lb := sc.Exec(sb, gen.BigGas)
			if la == nil || lb == nil {
				continue
			}
			ra := canonOutput(la.Out, la.Err) + "||" + string(sa.U.W.Canonical())
			rb := canonOutput(lb.Out, lb.Err) + "||" + string(sb.U.W.Canonical())
			if ra != rb {
				sa.M.viol("C13", "configuration-path-dependent:"+sc.Func, fmt.Sprintf("scenario %s: a container that was built with one schedule and then switched to another (variant %d) behaves differently from a container built with that schedule: %s", sc.Name, v, truncate(diffAt(ra, rb), 600)), la)
			}
			R.Cover("C13/configuration-path-checks")
		}
	}
}

// diffAt shows the neighbourhood of the first difference.
func diffAt(a, b string) string {
	n := len(a)
	if len(b) < n {
		n = len(b)
	}
	i := 0
	for i < n && a[i] == b[i] {
		i++
	}
	lo := i - 120
	if lo < 0 {
		lo = 0
	}
	ha, hb := i+200, i+200
	if ha > len(a) {
		ha = len(a)
	}
	if hb > len(b) {
		hb = len(b)
	}
	return fmt.Sprintf("at byte %d: %q  vs  %q", i, a[lo:ha], b[lo:hb])
}

// ---------------------------------------------------------------------------------------------
// C15

type enumOp struct {
	name string
	do   func(s *Scn, creator map[string][]byte)
}

func enumOps() []enumOp {
	bal := func(s *Scn, a, id []byte, n uint64) *big.Int { return s.U.Balance(a, id, n) }
	x := func(s *Scn, c node.Call) { s.U.N.Exec(c) }
	cr := func(m map[string][]byte, s *Scn) []byte { return m[string(s.SFT)] }
	return []enumOp{
		{"issue A 10", func(s *Scn, _ map[string][]byte) { s.U.Issue(s.A, s.F1, big.NewInt(10)) }},
		{"issue B 5", func(s *Scn, _ map[string][]byte) { s.U.Issue(s.Other, s.F1, big.NewInt(5)) }},
		{"T A->B 3", func(s *Scn, _ map[string][]byte) {
			x(s, gen.TransferCall(s.A, s.Other, s.F1, big.NewInt(3), gen.BigGas))
		}},
		{"T A->B all", func(s *Scn, _ map[string][]byte) {
			x(s, gen.TransferCall(s.A, s.Other, s.F1, bal(s, s.A, s.F1, 0), gen.BigGas))
		}},
		{"T B->A 2", func(s *Scn, _ map[string][]byte) {
			x(s, gen.TransferCall(s.Other, s.A, s.F1, big.NewInt(2), gen.BigGas))
		}},
		{"T A->K call", func(s *Scn, _ map[string][]byte) {
			x(s, gen.TransferCall(s.A, s.KSame, s.F1, big.NewInt(1), gen.BigGas, []byte("f")))
		}},
		{"T A->B bal+3 return-after-error", func(s *Scn, _ map[string][]byte) {
			c := gen.TransferCall(s.A, s.Other, s.F1, new(big.Int).Add(bal(s, s.A, s.F1, 0), big.NewInt(3)), gen.BigGas)
			c.RetAfterErr = true
			x(s, c)
		}},
		{"localburn A bal+1 return-after-error", func(s *Scn, _ map[string][]byte) {
			c := gen.SelfCall(FLocalBurn, s.A, gen.BigGas, s.F1, new(big.Int).Add(bal(s, s.A, s.F1, 0), big.NewInt(1)).Bytes())
			c.RetAfterErr = true
			x(s, c)
		}},
		{"nftburn S#1 bal+1 return-after-error", func(s *Scn, _ map[string][]byte) {
			c := gen.SelfCall(FNFTBurn, s.A, gen.BigGas, s.SFT, gen.U64(1), new(big.Int).Add(bal(s, s.A, s.SFT, 1), big.NewInt(1)).Bytes())
			c.RetAfterErr = true
			x(s, c)
		}},
		{"T A->A all", func(s *Scn, _ map[string][]byte) {
			x(s, gen.TransferCall(s.A, s.A, s.F1, bal(s, s.A, s.F1, 0), gen.BigGas))
		}},
		{"deliver first", func(s *Scn, _ map[string][]byte) {
			if len(s.U.N.Pool) > 0 {
				s.U.N.Deliver(0)
			}
		}},
		{"deliver last", func(s *Scn, _ map[string][]byte) {
			if len(s.U.N.Pool) > 0 {
				s.U.N.Deliver(len(s.U.N.Pool) - 1)
			}
		}},
		{"mint A 4", func(s *Scn, _ map[string][]byte) { x(s, gen.SelfCall(FLocalMint, s.A, gen.BigGas, s.F1, gen.Big(4))) }},
		{"localburn A 4", func(s *Scn, _ map[string][]byte) { x(s, gen.SelfCall(FLocalBurn, s.A, gen.BigGas, s.F1, gen.Big(4))) }},
		{"localburn A all", func(s *Scn, _ map[string][]byte) {
			x(s, gen.SelfCall(FLocalBurn, s.A, gen.BigGas, s.F1, bal(s, s.A, s.F1, 0).Bytes()))
		}},
		{"ESDTBurn A 1", func(s *Scn, _ map[string][]byte) {
			x(s, node.Call{Func: FBurn, Caller: s.A, Recipient: gen.SysSC, Args: [][]byte{s.F1, gen.Big(1)}, Gas: gen.BigGas})
		}},
		{"freeze A", func(s *Scn, _ map[string][]byte) { s.U.Freeze(s.A, s.F1) }},
		{"unfreeze A", func(s *Scn, _ map[string][]byte) { s.U.UnFreeze(s.A, s.F1) }},
		{"wipe A", func(s *Scn, _ map[string][]byte) { s.U.Wipe(s.A, s.F1) }},
		{"freeze B", func(s *Scn, _ map[string][]byte) { s.U.Freeze(s.Other, s.F1) }},
		{"unfreeze B", func(s *Scn, _ map[string][]byte) { s.U.UnFreeze(s.Other, s.F1) }},
		{"pause F shard0", func(s *Scn, _ map[string][]byte) { s.U.Pause(0, s.F1) }},
		{"unpause F shard0", func(s *Scn, _ map[string][]byte) { s.U.UnPause(0, s.F1) }},
		{"pause S shard1", func(s *Scn, _ map[string][]byte) { s.U.Pause(1%s.U.W.NumShards, s.SFT) }},
		{"create S 3", func(s *Scn, m map[string][]byte) {
			x(s, gen.SelfCall(FNFTCreate, cr(m, s), gen.BigGas, s.SFT, gen.Big(3), []byte("n"), gen.Big(1), []byte("h"), []byte("a"), []byte("u")))
		}},
		{"addqty S#1 2", func(s *Scn, _ map[string][]byte) {
			x(s, gen.SelfCall(FNFTAddQty, s.A, gen.BigGas, s.SFT, gen.U64(1), gen.Big(2)))
		}},
		{"nftburn S#1 1", func(s *Scn, _ map[string][]byte) {
			x(s, gen.SelfCall(FNFTBurn, s.A, gen.BigGas, s.SFT, gen.U64(1), gen.Big(1)))
		}},
		{"nftburn S#1 all", func(s *Scn, _ map[string][]byte) {
			x(s, gen.SelfCall(FNFTBurn, s.A, gen.BigGas, s.SFT, gen.U64(1), bal(s, s.A, s.SFT, 1).Bytes()))
		}},
		{"N A->B S#1 1", func(s *Scn, _ map[string][]byte) {
			x(s, gen.NFTTransferCall(s.A, s.Other, s.SFT, 1, big.NewInt(1), gen.BigGas))
		}},
		{"N A->B S#1 all", func(s *Scn, _ map[string][]byte) {
			x(s, gen.NFTTransferCall(s.A, s.Other, s.SFT, 1, bal(s, s.A, s.SFT, 1), gen.BigGas))
		}},
		{"N A->B S#1 0", func(s *Scn, _ map[string][]byte) {
			x(s, gen.NFTTransferCall(s.A, s.Other, s.SFT, 1, big.NewInt(0), gen.BigGas))
		}},
		{"M A->B F1 S1", func(s *Scn, _ map[string][]byte) {
			x(s, gen.MultiCall(s.A, s.Other, []gen.Item{{ID: s.F1, Nonce: 0, Qty: big.NewInt(1)}, {ID: s.SFT, Nonce: 1, Qty: big.NewInt(1)}}, gen.BigGas))
		}},
		{"M A->K F all", func(s *Scn, _ map[string][]byte) {
			x(s, gen.MultiCall(s.A, s.KSame, []gen.Item{{ID: s.F1, Nonce: 0, Qty: bal(s, s.A, s.F1, 0)}}, gen.BigGas, []byte("f")))
		}},
		{"M B->A S1", func(s *Scn, _ map[string][]byte) {
			x(s, gen.MultiCall(s.Other, s.A, []gen.Item{{ID: s.SFT, Nonce: 1, Qty: big.NewInt(1)}}, gen.BigGas))
		}},
		{"handover S ->B/A", func(s *Scn, m map[string][]byte) {
			if _, inflight := s.M.S.InFlightH[string(s.SFT)]; inflight {
				return
			}
			cur := cr(m, s)
			next := s.Other
			if bytes.Equal(cur, s.Other) {
				next = s.A
			}
			if l := s.U.HandOver(cur, next, s.SFT); l.OK {
				m[string(s.SFT)] = next
			}
		}},
		{"adduri S#1", func(s *Scn, _ map[string][]byte) {
			x(s, gen.SelfCall(FNFTAddURI, s.A, gen.BigGas, s.SFT, gen.U64(1), []byte("u2")))
		}},
		{"updattr S#1", func(s *Scn, _ map[string][]byte) {
			x(s, gen.SelfCall(FNFTUpdAttr, s.A, gen.BigGas, s.SFT, gen.U64(1), []byte{}))
		}},
		{"setrole B mint", func(s *Scn, _ map[string][]byte) {
			if !s.M.S.HasRole(s.Other, s.F1, RoleMint) {
				s.U.SetRoles(s.Other, s.F1, RoleMint)
			}
		}},
		{"unsetrole A mint+burn", func(s *Scn, _ map[string][]byte) { s.U.UnsetRoles(s.A, s.F1, RoleMint, RoleBurn) }},
		{"setrole A burn", func(s *Scn, _ map[string][]byte) {
			if !s.M.S.HasRole(s.A, s.F1, RoleBurn) {
				s.U.SetRoles(s.A, s.F1, RoleBurn)
			}
		}},
		{"setrole A mint+burn+x", func(s *Scn, _ map[string][]byte) {
			var rs []string
			for _, r := range []string{RoleMint, RoleBurn, RoleNFTBurn} {
				if !s.M.S.HasRole(s.A, s.F1, r) {
					rs = append(rs, r)
				}
			}
			if len(rs) > 0 {
				s.U.SetRoles(s.A, s.F1, rs...)
			}
		}},
		{"unsetrole S addqty+burn", func(s *Scn, _ map[string][]byte) { s.U.UnsetRoles(s.A, s.SFT, RoleAddQty, RoleNFTBurn) }},
	}
}

func runC15(c *harness.Ctx) {
	R := c.R
	r := c.Rand("c15")
	walks := c.Scale(40, 200)
	for i := 0; i < walks; i++ {
		w := NewWalk(r.Fork(uint64(i)), R, WalkOpts{Steps: c.Scale(200, 500), Hostile: 12, NoSysDest: true}, "C15")
		w.Run()
		R.Eval(w.U.N.Seq())
		if i == 0 {
			sample(c, map[string]interface{}{"walk_tail": w.M.History[len(w.M.History)-4:]})
		}
	}
	aliasCases(c, []string{"C15"})
	hugeNonceOps(c, []string{"C15"})
	// W-enum: every sequence up to depth d
	ops := enumOps()
	depth := c.Scale(3, 4)
	idx := 0
	total := 0
	seq := make([]int, 0, depth)
	var rec func()
	runSeq := func(seq []int) {
		s := NewScn(c.Rand("c15e"), R, ScnOpts{Shards: 2, Enabled: []string{"C15"}, NoHold: true})
		u := s.U
		creator := map[string][]byte{string(s.SFT): s.A}
		gen.Must(u.Issue(s.A, s.F1, big.NewInt(20)), "issue")
		gen.Must(u.SetRoles(s.A, s.F1, RoleMint, RoleBurn), "roles")
		gen.Must(u.SetRoles(s.A, s.SFT, RoleCreate, RoleAddQty, RoleNFTBurn, RoleAddURI, RoleUpdAttr), "roles")
		gen.Must(u.Create(s.A, s.SFT, 4, "n", "h", "a", 7, "u"), "create")
		for _, o := range seq {
			ops[o].do(s, creator)
		}
		drain(u.N)
		s.M.C15(u.N, &node.Leg{Call: node.Call{Func: "end-of-sequence"}, OK: true}, true)
		R.Distinct(u.W.Digest())
		R.Cover("C15/enum-sequences")
		total += u.N.Seq()
		if len(seq) == depth && idx < 40 && c.Batch == 0 {
			names := []string{}
			for _, o := range seq {
				names = append(names, ops[o].name)
			}
			if len(R.Samples) < 3 {
				R.Sample(map[string]interface{}{"enumerated_sequence": names})
			}
		}
	}
	rec = func() {
		if len(seq) > 0 {
			if idx%c.Batches == c.Batch {
				runSeq(seq)
			}
			idx++
		}
		if len(seq) == depth {
			return
		}
		for o := range ops {
			seq = append(seq, o)
			rec()
			seq = seq[:len(seq)-1]
		}
	}
	rec()
	R.Eval(total)
}
