package props

import (
	"fmt"
	"math/big"

	vmcommon "github.com/ElrondNetwork/elrond-vm-common"
	"verif/internal/gen"
	"verif/internal/node"
)

// The scenario library: successful legs of every function × leg × variant. Used by the gas sweep
// (C06), the schedule-sensitivity oracle (C16) and the fault enumeration (C17).

type Scenario struct {
	Name string
	Func string
	// Exec builds what it needs in the (freshly funded) scenario world and executes the measured
	// leg with the given gas; it returns that leg.
	Exec func(s *Scn, gas uint64) *node.Leg
	// PerByte describes the documented per-byte components of this scenario (C16), computed from
	// the measured leg: field name -> multiplier.
	PerByte func(s *Scn, l *node.Leg) map[string]uint64
	// OwnField is the schedule field holding the function's own cost; Mult its multiplier.
	OwnField string
	Mult     uint64
	Dest     bool // measured leg is a destination leg (C16 judges sender-side executions only)
	OwnSig   bool // violations on this scenario carry the scenario name in their signature
	Shards   uint32
}

func sumLen(args [][]byte) uint64 {
	var t uint64
	for _, a := range args {
		t += uint64(len(a))
	}
	return t
}

// deliverFirst executes the sender leg with ample gas and then delivers the emitted message with
// the given gas.
func deliverFirst(s *Scn, c node.Call, gas uint64) *node.Leg {
	l := s.U.N.Exec(c)
	if !l.OK || len(s.U.N.Pool) == 0 {
		return l
	}
	m := s.U.N.Pool[len(s.U.N.Pool)-1]
	m.Gas = gas
	return s.U.N.Deliver(len(s.U.N.Pool) - 1)
}

func withGas(c node.Call, gas uint64) node.Call { c.Gas = gas; return c }

func payloadBytes(l *node.Leg) uint64 {
	// bytes of every NFT payload in the emitted cross-shard message
	var t uint64
	for _, e := range l.Emitted {
		if e.Kind != node.MsgContinuation {
			continue
		}
		switch e.Func {
		case FNFTXfer:
			if len(e.Args) >= 4 {
				t += uint64(len(e.Args[3]))
			}
		case FMulti:
			n := int(u64(e.Args[0]))
			for i := 0; i < n && 3+3*i < len(e.Args); i++ {
				if u64(e.Args[2+3*i]) != 0 {
					t += uint64(len(e.Args[3+3*i]))
				}
			}
		}
	}
	return t
}

func Scenarios() []*Scenario {
	var L []*Scenario
	add := func(sc *Scenario) { L = append(L, sc) }
	att := [][]byte{[]byte("doWork"), {1, 2, 3}}

	// ---- account-level ----
	add(&Scenario{Name: "claim/same", Func: FClaim, OwnField: "ClaimDeveloperRewards", Mult: 1, Exec: func(s *Scn, g uint64) *node.Leg {
		return s.U.N.Exec(node.Call{Func: FClaim, Caller: s.A, Recipient: s.KSame, Gas: g})
	}})
	add(&Scenario{Name: "claim/same-async", Func: FClaim, OwnField: "ClaimDeveloperRewards", Mult: 1, Exec: func(s *Scn, g uint64) *node.Leg {
		return s.U.N.Exec(node.Call{Func: FClaim, Caller: s.A, Recipient: s.KSame, Gas: g, CallType: vmcommon.AsynchronousCall, GasLocked: 5})
	}})
	ownedByContract := func(s *Scn, k []byte, owner []byte) {
		s.U.W.Account(k).Owner = append([]byte{}, owner...)
	}
	add(&Scenario{Name: "claim/same-contract-owner", Func: FClaim, OwnField: "ClaimDeveloperRewards", Mult: 1, Exec: func(s *Scn, g uint64) *node.Leg {
		ownedByContract(s, s.NSame, s.KSame)
		return s.U.N.Exec(node.Call{Func: FClaim, Caller: s.KSame, Recipient: s.NSame, Gas: g})
	}})
	add(&Scenario{Name: "claim/same-contract-owner-async", Func: FClaim, OwnField: "ClaimDeveloperRewards", Mult: 1, OwnSig: true, Exec: func(s *Scn, g uint64) *node.Leg {
		ownedByContract(s, s.NSame, s.KSame)
		return s.U.N.Exec(node.Call{Func: FClaim, Caller: s.KSame, Recipient: s.NSame, Gas: g, CallType: vmcommon.AsynchronousCall})
	}})
	add(&Scenario{Name: "claim/self-owned", Func: FClaim, OwnField: "ClaimDeveloperRewards", Mult: 1, Exec: func(s *Scn, g uint64) *node.Leg {
		ownedByContract(s, s.KSame, s.KSame)
		return s.U.N.Exec(node.Call{Func: FClaim, Caller: s.KSame, Recipient: s.KSame, Gas: g})
	}})
	add(&Scenario{Name: "chgowner/same-contract-owner", Func: FChgOwner, OwnField: "ChangeOwnerAddress", Mult: 1, Exec: func(s *Scn, g uint64) *node.Leg {
		ownedByContract(s, s.NSame, s.KSame)
		return s.U.N.Exec(node.Call{Func: FChgOwner, Caller: s.KSame, Recipient: s.NSame, Args: [][]byte{s.A}, Gas: g})
	}})
	add(&Scenario{Name: "claim/cross-dst-contract-owner", Func: FClaim, Dest: true, Exec: func(s *Scn, g uint64) *node.Leg {
		ownedByContract(s, s.KOther, s.KSame)
		// a contract's call reaches another shard only through output transfers: deliver by hand
		m := &node.Message{Func: FClaim, From: s.KSame, To: s.KOther, Gas: g, CallType: vmcommon.AsynchronousCall, Kind: node.MsgContinuation}
		return s.U.N.DeliverMsg(m)
	}})
	add(&Scenario{Name: "claim/cross-snd", Func: FClaim, OwnField: "ClaimDeveloperRewards", Mult: 1, Exec: func(s *Scn, g uint64) *node.Leg {
		return s.U.N.Exec(node.Call{Func: FClaim, Caller: s.A, Recipient: s.KOther, Gas: g})
	}})
	add(&Scenario{Name: "claim/cross-dst", Func: FClaim, Dest: true, Exec: func(s *Scn, g uint64) *node.Leg {
		return deliverFirst(s, node.Call{Func: FClaim, Caller: s.A, Recipient: s.KOther, Gas: gen.BigGas}, g)
	}})
	add(&Scenario{Name: "chgowner/same", Func: FChgOwner, OwnField: "ChangeOwnerAddress", Mult: 1, Exec: func(s *Scn, g uint64) *node.Leg {
		return s.U.N.Exec(node.Call{Func: FChgOwner, Caller: s.A, Recipient: s.KSame, Args: [][]byte{s.Same}, Gas: g})
	}})
	add(&Scenario{Name: "chgowner/cross-snd", Func: FChgOwner, OwnField: "ChangeOwnerAddress", Mult: 1, Exec: func(s *Scn, g uint64) *node.Leg {
		return s.U.N.Exec(node.Call{Func: FChgOwner, Caller: s.A, Recipient: s.KOther, Args: [][]byte{s.Same}, Gas: g})
	}})
	add(&Scenario{Name: "chgowner/cross-dst", Func: FChgOwner, Dest: true, Exec: func(s *Scn, g uint64) *node.Leg {
		return deliverFirst(s, node.Call{Func: FChgOwner, Caller: s.A, Recipient: s.KOther, Args: [][]byte{s.Same}, Gas: gen.BigGas}, g)
	}})
	dnsSame := func(s *Scn) []byte { return gen.UserAddr(5, s.U.DNS[31]) }
	dnsOther := func(s *Scn) []byte { return gen.UserAddr(5, byte((uint32(s.U.DNS[31])+1)%s.U.W.NumShards)) }
	add(&Scenario{Name: "setname/same", Func: FSetName, OwnField: "SaveUserName", Mult: 1, Exec: func(s *Scn, g uint64) *node.Leg {
		return s.U.N.Exec(node.Call{Func: FSetName, Caller: s.U.DNS, Recipient: dnsSame(s), Args: [][]byte{[]byte("alice.elrond")}, Gas: g})
	}})
	add(&Scenario{Name: "setname/cross-snd", Func: FSetName, Exec: func(s *Scn, g uint64) *node.Leg {
		return s.U.N.Exec(node.Call{Func: FSetName, Caller: s.U.DNS, Recipient: dnsOther(s), Args: [][]byte{[]byte("bob.elrond")}, Gas: g, GasLocked: 3})
	}})
	add(&Scenario{Name: "setname/cross-dst", Func: FSetName, Dest: true, Exec: func(s *Scn, g uint64) *node.Leg {
		return deliverFirst(s, node.Call{Func: FSetName, Caller: s.U.DNS, Recipient: dnsOther(s), Args: [][]byte{[]byte("bob.elrond")}, Gas: gen.BigGas}, g)
	}})
	kv := func(name string, prep func(s *Scn), args ...[]byte) {
		add(&Scenario{Name: "savekv/" + name, Func: FSaveKV, OwnField: "SaveKeyValue", Mult: 1,
			Exec: func(s *Scn, g uint64) *node.Leg {
				if prep != nil {
					prep(s)
				}
				return s.U.N.Exec(node.Call{Func: FSaveKV, Caller: s.A, Recipient: s.A, Args: args, Gas: g})
			},
			PerByte: func(s *Scn, l *node.Leg) map[string]uint64 {
				persist, store := uint64(0), uint64(0)
				pa := l.Pre.Shards[l.Shard][string(s.A)]
				cur := map[string][]byte{}
				if pa != nil {
					for k, v := range pa.Storage {
						cur[k] = v
					}
				}
				for i := 0; i+1 < len(args); i += 2 {
					persist += uint64(len(args[i]) + len(args[i+1]))
					old := cur[string(args[i])]
					if string(old) != string(args[i+1]) {
						if len(args[i+1]) > len(old) {
							store += uint64(len(args[i+1]) - len(old))
						}
						cur[string(args[i])] = args[i+1]
					}
				}
				return map[string]uint64{"PersistPerByte": persist, "StorePerByte": store}
			}})
	}
	preK := func(s *Scn) {
		gen.Must(s.U.N.Exec(node.Call{Func: FSaveKV, Caller: s.A, Recipient: s.A, Args: [][]byte{[]byte("k"), []byte("old-value")}, Gas: gen.BigGas}), "prep kv")
	}
	kv("new", nil, []byte("key1"), []byte("value-1"))
	kv("unchanged", preK, []byte("k"), []byte("old-value"))
	kv("empty-on-missing", nil, []byte("nokey"), []byte{})
	kv("shorter", preK, []byte("k"), []byte("new"))
	kv("longer", preK, []byte("k"), []byte("a-much-longer-value-than-before"))
	kv("delete", preK, []byte("k"), []byte{})
	preLong := func(s *Scn) {
		gen.Must(s.U.N.Exec(node.Call{Func: FSaveKV, Caller: s.A, Recipient: s.A, Args: [][]byte{[]byte("a-key-of-twenty-bytes"), make([]byte, 30), []byte("second-key"), []byte("0123456789")}, Gas: gen.BigGas}), "prep kv")
	}
	kv("shorter-long-key", preLong, []byte("a-key-of-twenty-bytes"), make([]byte, 25))
	kv("shorter-by-one", preLong, []byte("second-key"), []byte("012345678"))
	kv("grow-then-shrink", preLong, []byte("x"), []byte("grow"), []byte("a-key-of-twenty-bytes"), make([]byte, 29), []byte("second-key"), []byte("01234"))
	kv("multi", preK, []byte("k"), []byte("old-value"), []byte("k2"), []byte("v2"), []byte("k"), []byte("xx"), []byte(""), []byte("empty-key"))
	// one key listed several times in one call: every pair is priced against what the pair before left
	kv("same-key-growing", nil, []byte("kk"), make([]byte, 10), []byte("kk"), make([]byte, 20), []byte("kk"), make([]byte, 45))
	kv("same-key-grow-shrink-grow", preK, []byte("k"), make([]byte, 30), []byte("k"), []byte("s"), []byte("k"), make([]byte, 12))
	kv("same-key-back-to-old", preK, []byte("k"), []byte("a-longer-value-than-old"), []byte("k"), []byte("old-value"))
	kv("same-key-delete-recreate", preK, []byte("k"), []byte{}, []byte("k"), make([]byte, 5))

	// ---- ESDTTransfer ----
	xf := func(name string, dest bool, own string, mk func(s *Scn) node.Call) {
		sc := &Scenario{Name: name, Dest: dest}
		sc.Exec = func(s *Scn, g uint64) *node.Leg {
			c := mk(s)
			if dest {
				c.Gas = gen.BigGas
				return deliverFirst(s, c, g)
			}
			c.Gas = g
			return s.U.N.Exec(c)
		}
		sc.OwnField = own
		sc.Mult = 1
		L = append(L, sc)
	}
	xf("transfer/same", false, "ESDTTransfer", func(s *Scn) node.Call { return s.Xfer("T", s.A, s.Same, "f") })
	for _, ct := range []vmcommon.CallType{vmcommon.AsynchronousCall, vmcommon.AsynchronousCallBack, vmcommon.ESDTTransferAndExecute} {
		ct := ct
		nm := map[vmcommon.CallType]string{vmcommon.AsynchronousCall: "async", vmcommon.AsynchronousCallBack: "callback", vmcommon.ESDTTransferAndExecute: "transfer-exec"}[ct]
		xf("transfer/same-"+nm, false, "ESDTTransfer", func(s *Scn) node.Call { c := s.Xfer("T", s.A, s.Same, "f"); c.CallType = ct; return c })
		xf("transfer/cross-snd-"+nm, false, "ESDTTransfer", func(s *Scn) node.Call { c := s.Xfer("T", s.A, s.Other, "f"); c.CallType = ct; return c })
		xf("transfer/same-contract-"+nm, false, "ESDTTransfer", func(s *Scn) node.Call {
			gen.Must(s.U.Issue(s.KSame, s.F1, big.NewInt(500)), "fund contract")
			c := s.Xfer("T", s.KSame, s.Same, "f")
			c.CallType = ct
			return c
		})
	}
	xf("transfer/same-call", false, "ESDTTransfer", func(s *Scn) node.Call { return s.Xfer("T", s.A, s.KSame, "f", att...) })
	xf("transfer/same-nonpayable-call", false, "ESDTTransfer", func(s *Scn) node.Call { return s.Xfer("T", s.A, s.NSame, "g", att...) })
	xf("transfer/cross-snd", false, "ESDTTransfer", func(s *Scn) node.Call { return s.Xfer("T", s.A, s.Other, "f") })
	xf("transfer/cross-snd-call", false, "ESDTTransfer", func(s *Scn) node.Call { return s.Xfer("T", s.A, s.KOther, "f", att...) })
	xf("transfer/cross-dst", true, "", func(s *Scn) node.Call { return s.Xfer("T", s.A, s.Other, "f") })
	xf("transfer/cross-dst-call", true, "", func(s *Scn) node.Call { return s.Xfer("T", s.A, s.KOther, "f", att...) })
	xf("transfer/contract-cross-snd", false, "ESDTTransfer", func(s *Scn) node.Call {
		gen.Must(s.U.Issue(s.KSame, s.F1, big.NewInt(500)), "fund contract")
		c := s.Xfer("T", s.KSame, s.Other, "f")
		c.CallType = vmcommon.AsynchronousCall
		c.GasLocked = 9
		return c
	})
	xf("transfer/contract-cross-dst-callback", true, "", func(s *Scn) node.Call {
		gen.Must(s.U.Issue(s.KSame, s.F1, big.NewInt(500)), "fund contract")
		c := s.Xfer("T", s.KSame, s.KOther, "f")
		c.CallType = vmcommon.AsynchronousCallBack
		return c
	})
	xf("burn/user", false, "ESDTBurn", func(s *Scn) node.Call {
		return node.Call{Func: FBurn, Caller: s.A, Recipient: gen.SysSC, Args: [][]byte{s.F1, gen.Big(5)}}
	})
	xf("burn/contract", false, "ESDTBurn", func(s *Scn) node.Call {
		gen.Must(s.U.Issue(s.KSame, s.F1, big.NewInt(500)), "fund contract")
		return node.Call{Func: FBurn, Caller: s.KSame, Recipient: gen.SysSC, Args: [][]byte{s.F1, gen.Big(5)}, GasLocked: 4}
	})
	// the WHOLE holding leaves, from an entry that went through a freeze / un-freeze cycle (its
	// properties are then present and 00 00) and from one that did not: the entry is deleted
	cycle := func(s *Scn, who []byte, id []byte) {
		s.U.Freeze(who, id)
		s.U.UnFreeze(who, id)
	}
	for _, cyc := range []bool{false, true} {
		cyc := cyc
		nm := map[bool]string{false: "", true: "-after-freeze-cycle"}[cyc]
		xf("transfer/same-all"+nm, false, "ESDTTransfer", func(s *Scn) node.Call {
			if cyc {
				cycle(s, s.A, s.F1)
			}
			return s.Xfer("T", s.A, s.Same, "F")
		})
		xf("transfer/cross-snd-all"+nm, false, "ESDTTransfer", func(s *Scn) node.Call {
			if cyc {
				cycle(s, s.A, s.F1)
			}
			return s.Xfer("T", s.A, s.Other, "F")
		})
		xf("burn/user-all"+nm, false, "ESDTBurn", func(s *Scn) node.Call {
			if cyc {
				cycle(s, s.A, s.F1)
			}
			return node.Call{Func: FBurn, Caller: s.A, Recipient: gen.SysSC, Args: [][]byte{s.F1, s.U.Balance(s.A, s.F1, 0).Bytes()}}
		})
		if cyc {
			xf("localburn/all"+nm, false, "ESDTLocalBurn", func(s *Scn) node.Call {
				cycle(s, s.A, s.F1)
				return gen.SelfCall(FLocalBurn, s.A, 0, s.F1, s.U.Balance(s.A, s.F1, 0).Bytes())
			})
		}
	}
	xf("localmint", false, "ESDTLocalMint", func(s *Scn) node.Call { return gen.SelfCall(FLocalMint, s.A, 0, s.F1, gen.Big(77)) })
	xf("localburn", false, "ESDTLocalBurn", func(s *Scn) node.Call { return gen.SelfCall(FLocalBurn, s.A, 0, s.F1, gen.Big(77)) })
	xf("localburn/all", false, "ESDTLocalBurn", func(s *Scn) node.Call { return gen.SelfCall(FLocalBurn, s.A, 0, s.F1, gen.Big(1000)) })
	xf("addqty", false, "ESDTNFTAddQuantity", func(s *Scn) node.Call { return gen.SelfCall(FNFTAddQty, s.A, 0, s.SFT, gen.U64(1), gen.Big(5)) })
	xf("addqty/zero", false, "ESDTNFTAddQuantity", func(s *Scn) node.Call { return gen.SelfCall(FNFTAddQty, s.A, 0, s.SFT, gen.U64(1), []byte{}) })
	xf("nftburn", false, "ESDTNFTBurn", func(s *Scn) node.Call { return gen.SelfCall(FNFTBurn, s.A, 0, s.SFT, gen.U64(1), gen.Big(2)) })
	xf("nftburn/all", false, "ESDTNFTBurn", func(s *Scn) node.Call { return gen.SelfCall(FNFTBurn, s.A, 0, s.NFT, gen.U64(1), gen.Big(1)) })

	// ---- per-byte priced functions ----
	createArgs := func(s *Scn, big bool) [][]byte {
		if big {
			return [][]byte{s.SFT, gen.Big(3), make([]byte, 40), gen.Big(9999), make([]byte, 64), make([]byte, 300), []byte("uri-1"), []byte("uri-22"), {}}
		}
		return [][]byte{s.NFT, gen.Big(1), []byte("nm"), {}, []byte("h"), {}, []byte("u")}
	}
	add(&Scenario{Name: "create/huge", Func: FNFTCreate, OwnField: "ESDTNFTCreate", Mult: 1,
		Exec: func(s *Scn, g uint64) *node.Leg {
			return s.U.N.Exec(gen.SelfCall(FNFTCreate, s.A, g, s.SFT, gen.Big(2), make([]byte, 300), gen.Big(1), make([]byte, 256), make([]byte, 70000), make([]byte, 65536), []byte("u")))
		},
		PerByte: func(s *Scn, l *node.Leg) map[string]uint64 {
			return map[string]uint64{"StorePerByte": sumLen(l.Call.Args)}
		}})
	add(&Scenario{Name: "updattr/huge", Func: FNFTUpdAttr, OwnField: "ESDTNFTUpdateAttributes", Mult: 1,
		Exec: func(s *Scn, g uint64) *node.Leg {
			return s.U.N.Exec(gen.SelfCall(FNFTUpdAttr, s.A, g, s.SFT, gen.U64(1), make([]byte, 65537)))
		},
		PerByte: func(s *Scn, l *node.Leg) map[string]uint64 {
			return map[string]uint64{"StorePerByte": uint64(len(l.Call.Args[2]))}
		}})
	add(&Scenario{Name: "savekv/huge", Func: FSaveKV, OwnField: "SaveKeyValue", Mult: 1,
		Exec: func(s *Scn, g uint64) *node.Leg {
			return s.U.N.Exec(node.Call{Func: FSaveKV, Caller: s.A, Recipient: s.A, Args: [][]byte{make([]byte, 300), make([]byte, 66000)}, Gas: g})
		},
		PerByte: func(s *Scn, l *node.Leg) map[string]uint64 {
			return map[string]uint64{"PersistPerByte": 66300, "StorePerByte": 66000}
		}})
	for _, bigv := range []bool{false, true} {
		bigv := bigv
		name := "create/small"
		if bigv {
			name = "create/big"
		}
		add(&Scenario{Name: name, Func: FNFTCreate, OwnField: "ESDTNFTCreate", Mult: 1,
			Exec: func(s *Scn, g uint64) *node.Leg {
				return s.U.N.Exec(gen.SelfCall(FNFTCreate, s.A, g, createArgs(s, bigv)...))
			},
			PerByte: func(s *Scn, l *node.Leg) map[string]uint64 {
				return map[string]uint64{"StorePerByte": sumLen(l.Call.Args)}
			}})
	}
	for _, k := range []int{1, 3} {
		k := k
		add(&Scenario{Name: "adduri/" + string(rune('0'+k)), Func: FNFTAddURI, OwnField: "ESDTNFTAddURI", Mult: 1,
			Exec: func(s *Scn, g uint64) *node.Leg {
				args := [][]byte{s.SFT, gen.U64(1)}
				for i := 0; i < k; i++ {
					args = append(args, make([]byte, 7*(i+1)))
				}
				return s.U.N.Exec(gen.SelfCall(FNFTAddURI, s.A, g, args...))
			},
			PerByte: func(s *Scn, l *node.Leg) map[string]uint64 {
				return map[string]uint64{"StorePerByte": sumLen(l.Call.Args[2:])}
			}})
	}
	for _, sz := range []int{0, 33} {
		sz := sz
		nm := "updattr/empty"
		if sz > 0 {
			nm = "updattr/33"
		}
		add(&Scenario{Name: nm, Func: FNFTUpdAttr, OwnField: "ESDTNFTUpdateAttributes", Mult: 1,
			Exec: func(s *Scn, g uint64) *node.Leg {
				return s.U.N.Exec(gen.SelfCall(FNFTUpdAttr, s.A, g, s.SFT, gen.U64(1), make([]byte, sz)))
			},
			PerByte: func(s *Scn, l *node.Leg) map[string]uint64 {
				return map[string]uint64{"StorePerByte": uint64(len(l.Call.Args[2]))}
			}})
	}

	// ---- NFT transfer ----
	nft := func(name string, dest bool, cross bool, mk func(s *Scn) node.Call) {
		sc := &Scenario{Name: name, Dest: dest, OwnField: "ESDTNFTTransfer", Mult: 1}
		if dest {
			sc.OwnField = ""
		}
		sc.Exec = func(s *Scn, g uint64) *node.Leg {
			c := mk(s)
			if dest {
				c.Gas = gen.BigGas
				return deliverFirst(s, c, g)
			}
			c.Gas = g
			return s.U.N.Exec(c)
		}
		if !dest {
			sc.PerByte = func(s *Scn, l *node.Leg) map[string]uint64 {
				if cross {
					return map[string]uint64{"DataCopyPerByte": payloadBytes(l)}
				}
				return map[string]uint64{"DataCopyPerByte": ^uint64(0)} // same shard: any non-negative multiple
			}
		}
		L = append(L, sc)
	}
	nft("nftxfer/same", false, false, func(s *Scn) node.Call { return s.Xfer("N", s.A, s.Same, "s") })
	for _, ct := range []vmcommon.CallType{vmcommon.AsynchronousCall, vmcommon.AsynchronousCallBack, vmcommon.ESDTTransferAndExecute} {
		ct := ct
		nm := map[vmcommon.CallType]string{vmcommon.AsynchronousCall: "async", vmcommon.AsynchronousCallBack: "callback", vmcommon.ESDTTransferAndExecute: "transfer-exec"}[ct]
		nft("nftxfer/same-"+nm, false, false, func(s *Scn) node.Call { c := s.Xfer("N", s.A, s.Same, "s"); c.CallType = ct; return c })
		nft("nftxfer/cross-snd-"+nm, false, true, func(s *Scn) node.Call { c := s.Xfer("N", s.A, s.Other, "s"); c.CallType = ct; return c })
	}
	// the destination already holds so much that the SUM has a longer encoding than the quantity
	// sent (253 + 3 = 256): what is stored and what is sent differ in length
	preHold := func(s *Scn, dst []byte) {
		s.U.N.Exec(gen.SelfCall(FNFTAddQty, s.A, gen.BigGas, s.SFT, gen.U64(1), gen.Big(300)))
		s.U.N.Exec(gen.NFTTransferCall(s.A, dst, s.SFT, 1, big.NewInt(253), gen.BigGas))
		s.U.N.Exec(gen.TransferCall(s.A, dst, s.F1, big.NewInt(250), gen.BigGas))
		s.U.N.DrainAll()
	}
	nft("nftxfer/same-sum-longer", false, false, func(s *Scn) node.Call { preHold(s, s.Same); return s.Xfer("N", s.A, s.Same, "s") })
	nft("nftxfer/cross-snd-sum-longer", false, true, func(s *Scn) node.Call { preHold(s, s.Other); return s.Xfer("N", s.A, s.Other, "s") })
	nft("nftxfer/cross-dst-sum-longer", true, true, func(s *Scn) node.Call { preHold(s, s.Other); return s.Xfer("N", s.A, s.Other, "s") })
	nft("nftxfer/same-call", false, false, func(s *Scn) node.Call { return s.Xfer("N", s.A, s.KSame, "n", att...) })
	nft("nftxfer/cross-snd", false, true, func(s *Scn) node.Call { return s.Xfer("N", s.A, s.Other, "s") })
	nft("nftxfer/cross-snd-call", false, true, func(s *Scn) node.Call { return s.Xfer("N", s.A, s.KOther, "S", att...) })
	nft("nftxfer/cross-dst", true, true, func(s *Scn) node.Call { return s.Xfer("N", s.A, s.Other, "s") })
	nft("nftxfer/cross-dst-call", true, true, func(s *Scn) node.Call { return s.Xfer("N", s.A, s.KOther, "n", att...) })

	// an NFT that has GROWN through use: attributes of 1.5 KB and 71 URIs (one at creation, seven
	// ESDTNFTAddURI calls of ten each) - the marshalled entry is well over 2 KB
	grow := func(s *Scn) {
		s.U.N.Exec(gen.SelfCall(FNFTUpdAttr, s.A, gen.BigGas, s.SFT, gen.U64(1), make([]byte, 1500)))
		for k := 0; k < 7; k++ {
			args := [][]byte{s.SFT, gen.U64(1)}
			for j := 0; j < 10; j++ {
				args = append(args, []byte{byte('a' + k), byte('0' + j), '/', 'u', 'r', 'i'})
			}
			s.U.N.Exec(gen.SelfCall(FNFTAddURI, s.A, gen.BigGas, args...))
		}
	}
	nft("nftxfer/same-grown", false, false, func(s *Scn) node.Call { grow(s); return s.Xfer("N", s.A, s.Same, "s") })
	nft("nftxfer/cross-snd-grown", false, true, func(s *Scn) node.Call { grow(s); return s.Xfer("N", s.A, s.Other, "s") })
	nft("nftxfer/cross-snd-call-grown", false, true, func(s *Scn) node.Call { grow(s); return s.Xfer("N", s.A, s.KOther, "S", att...) })
	nft("nftxfer/cross-dst-grown", true, true, func(s *Scn) node.Call { grow(s); return s.Xfer("N", s.A, s.Other, "s") })
	add(&Scenario{Name: "adduri/grown", Func: FNFTAddURI, OwnField: "ESDTNFTAddURI", Mult: 1,
		Exec: func(s *Scn, g uint64) *node.Leg {
			grow(s)
			args := [][]byte{s.SFT, gen.U64(1)}
			for j := 0; j < 10; j++ {
				args = append(args, []byte{'z', byte('0' + j)})
			}
			return s.U.N.Exec(gen.SelfCall(FNFTAddURI, s.A, g, args...))
		},
		PerByte: func(s *Scn, l *node.Leg) map[string]uint64 {
			return map[string]uint64{"StorePerByte": sumLen(l.Call.Args[2:])}
		}})
	add(&Scenario{Name: "updattr/grown", Func: FNFTUpdAttr, OwnField: "ESDTNFTUpdateAttributes", Mult: 1,
		Exec: func(s *Scn, g uint64) *node.Leg {
			grow(s)
			return s.U.N.Exec(gen.SelfCall(FNFTUpdAttr, s.A, g, s.SFT, gen.U64(1), make([]byte, 700)))
		},
		PerByte: func(s *Scn, l *node.Leg) map[string]uint64 {
			return map[string]uint64{"StorePerByte": uint64(len(l.Call.Args[2]))}
		}})
	// a role list that has grown long: the system contract granted the same roles again and again
	// (it may: the list is the library's to keep) and roles this version has no function for
	longRoles := func(s *Scn) {
		for k := 0; k < 4; k++ {
			s.U.N.Exec(node.Call{Func: FSetRole, Caller: gen.SysSC, Recipient: s.A, Args: [][]byte{s.F1, []byte(RoleBurn), []byte("ESDTTransferRole"), []byte("ESDTRoleFutureUse")}})
		}
		s.U.N.Exec(node.Call{Func: FSetRole, Caller: gen.SysSC, Recipient: s.A, Args: [][]byte{s.F1, []byte(RoleMint)}})
	}
	xf("localmint/long-role-list", false, "ESDTLocalMint", func(s *Scn) node.Call {
		longRoles(s)
		return gen.SelfCall(FLocalMint, s.A, 0, s.F1, gen.Big(77))
	})
	xf("localburn/long-role-list", false, "ESDTLocalBurn", func(s *Scn) node.Call {
		longRoles(s)
		return gen.SelfCall(FLocalBurn, s.A, 0, s.F1, gen.Big(7))
	})

	// ---- multi transfer ----
	multi := func(name string, dest bool, cross bool, pattern string, mk func(s *Scn) node.Call) {
		sc := &Scenario{Name: name, Dest: dest, OwnField: "ESDTNFTMultiTransfer", Mult: uint64(len(pattern))}
		if dest {
			sc.OwnField = ""
		}
		sc.Exec = func(s *Scn, g uint64) *node.Leg {
			c := mk(s)
			if dest {
				c.Gas = gen.BigGas
				return deliverFirst(s, c, g)
			}
			c.Gas = g
			return s.U.N.Exec(c)
		}
		if !dest {
			sc.PerByte = func(s *Scn, l *node.Leg) map[string]uint64 {
				if cross {
					return map[string]uint64{"DataCopyPerByte": payloadBytes(l)}
				}
				return map[string]uint64{"DataCopyPerByte": ^uint64(0)}
			}
		}
		L = append(L, sc)
	}
	multi("multi/same-f", false, false, "f", func(s *Scn) node.Call { return s.Xfer("M", s.A, s.Same, "f") })
	for _, ct := range []vmcommon.CallType{vmcommon.AsynchronousCall, vmcommon.AsynchronousCallBack, vmcommon.ESDTTransferAndExecute} {
		ct := ct
		nm := map[vmcommon.CallType]string{vmcommon.AsynchronousCall: "async", vmcommon.AsynchronousCallBack: "callback", vmcommon.ESDTTransferAndExecute: "transfer-exec"}[ct]
		multi("multi/same-fs-"+nm, false, false, "fs", func(s *Scn) node.Call { c := s.Xfer("M", s.A, s.Same, "fs"); c.CallType = ct; return c })
		multi("multi/cross-snd-fs-"+nm, false, true, "fs", func(s *Scn) node.Call { c := s.Xfer("M", s.A, s.Other, "fs"); c.CallType = ct; return c })
	}
	// every ORDER of kinds: a fungible entry after an NFT entry, NFT entries back to back, the same
	// token listed twice
	for _, pat := range []string{"sf", "sfnf", "nsfg", "ss", "sfs", "tsf"} {
		pat := pat
		multi("multi/cross-snd-order-"+pat, false, true, pat, func(s *Scn) node.Call { return s.Xfer("M", s.A, s.Other, pat) })
		multi("multi/same-order-"+pat, false, false, pat, func(s *Scn) node.Call { return s.Xfer("M", s.A, s.Same, pat) })
	}
	multi("multi/cross-dst-order-sfnf", true, true, "sfnf", func(s *Scn) node.Call { return s.Xfer("M", s.A, s.Other, "sfnf") })
	multi("multi/same-all-after-freeze-cycle", false, false, "FS", func(s *Scn) node.Call {
		s.U.Freeze(s.A, s.F1)
		s.U.UnFreeze(s.A, s.F1)
		return s.Xfer("M", s.A, s.Same, "FS")
	})
	multi("multi/cross-snd-all-after-freeze-cycle", false, true, "FS", func(s *Scn) node.Call {
		s.U.Freeze(s.A, s.F1)
		s.U.UnFreeze(s.A, s.F1)
		return s.Xfer("M", s.A, s.Other, "FS")
	})
	multi("multi/same-sum-longer", false, false, "sf", func(s *Scn) node.Call {
		s.U.N.Exec(gen.SelfCall(FNFTAddQty, s.A, gen.BigGas, s.SFT, gen.U64(1), gen.Big(300)))
		s.U.N.Exec(gen.NFTTransferCall(s.A, s.Same, s.SFT, 1, big.NewInt(253), gen.BigGas))
		s.U.N.Exec(gen.TransferCall(s.A, s.Same, s.F1, big.NewInt(250), gen.BigGas))
		return s.Xfer("M", s.A, s.Same, "sf")
	})
	multi("multi/same-fsn", false, false, "fsn", func(s *Scn) node.Call { return s.Xfer("M", s.A, s.Same, "fsn") })
	multi("multi/same-call", false, false, "fs", func(s *Scn) node.Call { return s.Xfer("M", s.A, s.KSame, "fs", att...) })
	multi("multi/cross-snd-f", false, true, "f", func(s *Scn) node.Call { return s.Xfer("M", s.A, s.Other, "f") })
	multi("multi/cross-snd-fgsnt", false, true, "fgsnt", func(s *Scn) node.Call { return s.Xfer("M", s.A, s.Other, "fgsnt") })
	multi("multi/cross-snd-call", false, true, "sn", func(s *Scn) node.Call { return s.Xfer("M", s.A, s.KOther, "sn", att...) })
	// refund legs (return-after-error): the destination is frozen when the message arrives, the
	// tokens come back to a sender that still holds part of what it sent
	refund := func(name string, own string, fn, pattern string) {
		sc := &Scenario{Name: name, Dest: true}
		sc.Exec = func(s *Scn, g uint64) *node.Leg {
			s.U.Issue(s.Other, s.F1, big.NewInt(1))
			s.U.Freeze(s.Other, s.F1)
			c := s.Xfer(fn, s.A, s.Other, pattern)
			c.Gas = gen.BigGas
			if l := s.U.N.Exec(c); !l.OK || len(s.U.N.Pool) == 0 {
				return l
			}
			if l := s.U.N.Deliver(len(s.U.N.Pool) - 1); l == nil || l.OK || len(s.U.N.Pool) == 0 {
				return l // not refused: nothing to refund
			}
			m := s.U.N.Pool[len(s.U.N.Pool)-1]
			m.Gas = g
			return s.U.N.Deliver(len(s.U.N.Pool) - 1)
		}
		L = append(L, sc)
	}
	refund("transfer/refund", "", "T", "f")
	refund("multi/refund-fs", "", "M", "fs")
	refund("multi/refund-sf", "", "M", "sf")
	// asynchronous calls that lock gas for their callback (GasLocked travels in its own field of the
	// emitted transfer; it is no part of what the call consumes, forwards or keeps)
	for _, lk := range []uint64{1, 5000, 1 << 40} {
		lk := lk
		tag := fmt.Sprintf("-async-locked-%d", lk)
		locked := func(c node.Call) node.Call { c.CallType = vmcommon.AsynchronousCall; c.GasLocked = lk; return c }
		multi("multi/cross-snd-call"+tag, false, true, "sn", func(s *Scn) node.Call { return locked(s.Xfer("M", s.A, s.KOther, "sn", att...)) })
		multi("multi/same-call"+tag, false, false, "fs", func(s *Scn) node.Call { return locked(s.Xfer("M", s.A, s.KSame, "fs", att...)) })
		nft("nftxfer/cross-snd-call"+tag, false, true, func(s *Scn) node.Call { return locked(s.Xfer("N", s.A, s.KOther, "S", att...)) })
		nft("nftxfer/same-call"+tag, false, false, func(s *Scn) node.Call { return locked(s.Xfer("N", s.A, s.KSame, "n", att...)) })
		xf("transfer/cross-snd-call"+tag, false, "ESDTTransfer", func(s *Scn) node.Call { return locked(s.Xfer("T", s.A, s.KOther, "f", att...)) })
		xf("transfer/same-call"+tag, false, "ESDTTransfer", func(s *Scn) node.Call { return locked(s.Xfer("T", s.A, s.KSame, "f", att...)) })
		add(&Scenario{Name: "claim/same-async-locked" + tag, Func: FClaim, OwnField: "ClaimDeveloperRewards", Mult: 1, Exec: func(s *Scn, g uint64) *node.Leg {
			return s.U.N.Exec(node.Call{Func: FClaim, Caller: s.A, Recipient: s.KSame, Gas: g, CallType: vmcommon.AsynchronousCall, GasLocked: lk})
		}})
	}
	multi("multi/cross-dst-f", true, true, "f", func(s *Scn) node.Call { return s.Xfer("M", s.A, s.Other, "f") })
	multi("multi/cross-dst-fsn", true, true, "fsn", func(s *Scn) node.Call { return s.Xfer("M", s.A, s.Other, "fsn") })
	multi("multi/cross-dst-call", true, true, "fs", func(s *Scn) node.Call { return s.Xfer("M", s.A, s.KOther, "fs", att...) })

	// ---- system contract ----
	sys := func(name, fn string, mk func(s *Scn) *node.Leg) {
		add(&Scenario{Name: "sys/" + name, Func: fn, Dest: true, Exec: func(s *Scn, g uint64) *node.Leg { return mk(s) }})
	}
	sys("issue", FTransfer, func(s *Scn) *node.Leg { return s.U.Issue(s.Same, s.F1, big.NewInt(5)) })
	sys("setrole", FSetRole, func(s *Scn) *node.Leg { return s.U.SetRoles(s.Same, s.F1, RoleMint, RoleBurn) })
	sys("setrole-append", FSetRole, func(s *Scn) *node.Leg { return s.U.SetRoles(s.A, s.F1, RoleNFTBurn) })
	sys("unsetrole", FUnSetRole, func(s *Scn) *node.Leg { return s.U.UnsetRoles(s.A, s.F1, RoleMint) })
	sys("unsetrole-all", FUnSetRole, func(s *Scn) *node.Leg { return s.U.UnsetRoles(s.A, s.F1, RoleMint, RoleBurn) })
	sys("freeze", FFreeze, func(s *Scn) *node.Leg { return s.U.Freeze(s.A, s.F1) })
	sys("freeze-empty", FFreeze, func(s *Scn) *node.Leg { return s.U.Freeze(s.Same, s.F1) })
	sys("unfreeze", FUnFreeze, func(s *Scn) *node.Leg { gen.Must(s.U.Freeze(s.A, s.F1), "freeze"); return s.U.UnFreeze(s.A, s.F1) })
	sys("wipe", FWipe, func(s *Scn) *node.Leg { gen.Must(s.U.Freeze(s.A, s.F1), "freeze"); return s.U.Wipe(s.A, s.F1) })
	sys("pause", FPause, func(s *Scn) *node.Leg { return s.U.Pause(0, s.F1) })
	sys("unpause", FUnPause, func(s *Scn) *node.Leg { gen.Must(s.U.Pause(0, s.F1), "pause"); return s.U.UnPause(0, s.F1) })
	sys("handover-same", FHandOver, func(s *Scn) *node.Leg { return s.U.HandOver(s.A, s.Same, s.SFT) })
	sys("handover-cross-first", FHandOver, func(s *Scn) *node.Leg { return s.U.HandOver(s.A, s.Other, s.SFT) })
	sys("handover-cross-deliver", FHandOver, func(s *Scn) *node.Leg {
		gen.Must(s.U.HandOver(s.A, s.Other, s.SFT), "first leg")
		if len(s.U.N.Pool) == 0 {
			return &node.Leg{}
		}
		return s.U.N.Deliver(len(s.U.N.Pool) - 1)
	})
	for _, sc := range L {
		if sc.Func == "" {
			switch {
			case len(sc.Name) >= 8 && sc.Name[:8] == "transfer":
				sc.Func = FTransfer
			case len(sc.Name) >= 7 && sc.Name[:7] == "nftxfer":
				sc.Func = FNFTXfer
			case len(sc.Name) >= 5 && sc.Name[:5] == "multi":
				sc.Func = FMulti
			case len(sc.Name) >= 4 && sc.Name[:4] == "burn":
				sc.Func = FBurn
			case sc.Name == "localmint":
				sc.Func = FLocalMint
			case len(sc.Name) >= 9 && sc.Name[:9] == "localburn":
				sc.Func = FLocalBurn
			case len(sc.Name) >= 6 && sc.Name[:6] == "addqty":
				sc.Func = FNFTAddQty
			case len(sc.Name) >= 7 && sc.Name[:7] == "nftburn":
				sc.Func = FNFTBurn
			}
		}
		if sc.Shards == 0 {
			sc.Shards = 2
		}
	}
	return L
}
