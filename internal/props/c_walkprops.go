package props

import (
	"verif/internal/gen"
	"verif/internal/harness"
)

// Properties decided mainly on W-walk legs share this runner.

func walkBatches(q, t int) func(string) int {
	return func(tier string) int {
		if tier == "thorough" {
			return t
		}
		return q
	}
}

func runWalks(c *harness.Ctx, walks, steps, hostile int, noSysDest bool, enabled ...string) {
	runWalksOpt(c, walks, WalkOpts{Steps: steps, Hostile: hostile, NoSysDest: noSysDest}, enabled...)
}

func runWalksOpt(c *harness.Ctx, walks int, o WalkOpts, enabled ...string) {
	r := c.Rand("walk")
	base := o
	for i := 0; i < walks; i++ {
		o := base
		switch i % 5 {
		case 2:
			o.Reencode = true // stored entries rewritten into equivalent representations between legs
		case 3:
			o.PadNumbers = true // non-minimal number encodings among the arguments
		case 4:
			o.Faults = 12 // dependency faults: the failed attempt is rolled back and processed again
		}
		w := NewWalk(r.Fork(uint64(i)), c.R, o, enabled...)
		w.Run()
		c.R.Eval(w.U.N.Seq())
		if i == 0 && c.Batch == 0 {
			h := w.M.History
			if len(h) > 12 {
				h = h[len(h)-12:]
			}
			c.R.Sample(map[string]interface{}{"walk_tail": h})
		}
	}
}

func init() {
	harness.ExtraNotes = func() []string { return gen.SetupFailures }
	harness.Register(&harness.Property{
		ID: "DEV", Level: "exploration", Rule: "dev: all monitors on walks",
		Batches: walkBatches(8, 16),
		Run: func(c *harness.Ctx) {
			runWalks(c, c.Scale(40, 400), 80, 15, true, "C01", "C02", "C03", "C04", "C05", "C06", "C07", "C08", "C09", "C10", "C11", "C13", "C15")
		},
	})
}
