package props

import (
	"bytes"
	"fmt"
	"math/big"
	"strings"

	vmcommon "github.com/ElrondNetwork/elrond-vm-common"
	"github.com/ElrondNetwork/elrond-vm-common/builtInFunctions"
	"verif/internal/gen"
	"verif/internal/harness"
	"verif/internal/node"
	"verif/internal/refcodec"
	"verif/internal/world"
)

// Properties C01–C10: world-state properties decided by the leg monitors on directed matrices
// and on W-walk histories.

var commonAssumptions = []string{
	"mini-node conventions T1–T7 of DESIGN.md §4 (rollback on error, exactly-once delivery, caller of a delivered message, refund shape, system-contract discipline, real token-id format, system account not a transfer destination)",
	"harness-implemented dependencies (accounts, adapter, coordinator, production protobuf codec driven as GogoProtoMarshalizer does) behave like the node's",
	"reference codec of internal/refcodec (validated against the library by C14)",
}

func tierN(q, t int) func(string) int {
	return func(tier string) int {
		if tier == "thorough" {
			return t
		}
		return q
	}
}

func sample(c *harness.Ctx, v interface{}) {
	if c.Batch == 0 {
		c.R.Sample(v)
	}
}

// mine reports whether directed case i belongs to this batch.
func mine(c *harness.Ctx, i int) bool { return i%c.Batches == c.Batch }

// drain delivers everything in flight and returns the legs.
func drain(n *node.Node) []*node.Leg {
	var legs []*node.Leg
	for g := 0; len(n.Pool) > 0 && g < 50; g++ {
		if l := n.Deliver(0); l != nil {
			legs = append(legs, l)
		}
	}
	return legs
}

// giveDest gives a destination prior holdings of the tokens A can send.
func giveDest(s *Scn, dst []byte) {
	gen.Must(s.U.Issue(dst, s.F1, big.NewInt(50)), "dest prior F1")
	gen.Must(s.U.Issue(dst, s.F2, big.NewInt(1)), "dest prior F2")
	c := gen.MultiCall(s.A, dst, []gen.Item{{ID: s.SFT, Nonce: 1, Qty: big.NewInt(2)}, {ID: s.SFT, Nonce: 2, Qty: big.NewInt(1)}}, gen.BigGas, []byte("prior"))
	gen.Must(s.U.N.Exec(c), "dest prior SFT")
	for _, l := range drain(s.U.N) {
		gen.Must(l, "dest prior SFT delivery")
	}
}

// ---------------------------------------------------------------------------------------------
// the directed transfer matrix shared by C01 / C08 / C10

func transferMatrix(c *harness.Ctx, enabled []string, each func(s *Scn, l *node.Leg, tag string)) {
	i := 0
	cts := []vmcommon.CallType{vmcommon.DirectCall, vmcommon.AsynchronousCall, vmcommon.AsynchronousCallBack, vmcommon.ESDTTransferAndExecute}
	for _, S := range []uint32{1, 2, 3} {
		for _, f := range allForms {
			for di := 0; di < 4; di++ {
				for ai, att := range attachedForms {
					for vi := 0; vi < 8; vi++ {
						prior := vi%2 == 1
						ct := cts[(vi/2)%4]
						i++
						if !mine(c, i) {
							continue
						}
						s := NewScn(c.Rand("matrix").Fork(uint64(i)), c.R, ScnOpts{Shards: S, Enabled: enabled})
						dst := [][]byte{s.Same, s.Other, s.KSame, s.KOther}[di]
						if prior {
							giveDest(s, dst)
						}
						from := s.A
						if (i/7)%3 == 2 && di != 2 {
							// a contract as the sender: it receives its holdings from A first
							from = s.KSame
							gen.Must(s.U.N.Exec(gen.MultiCall(s.A, from, []gen.Item{{ID: s.F1, Nonce: 0, Qty: big.NewInt(500)}, {ID: s.F2, Nonce: 0, Qty: gen.Pow2(69)},
								{ID: s.SFT, Nonce: 1, Qty: big.NewInt(5)}, {ID: s.SFT, Nonce: 2, Qty: big.NewInt(2)}, {ID: s.NFT, Nonce: 1, Qty: big.NewInt(1)}}, gen.BigGas, []byte("fund"))), "fund the contract sender")
						}
						// a third of the cases encode every number with leading zero bytes
						padded := i%3 == 0
						if padded {
							k := 0
							gen.NumPad = func() int { k++; return 1 + k%3 }
						}
						call := s.Xfer(f.Fn, from, dst, f.Pattern, att...)
						gen.NumPad = nil
						call.CallType = ct
						call.GasLocked = uint64(vi) * 10
						l := s.U.N.Exec(call)
						tag := fmt.Sprintf("S%d %s dst%d att%d prior=%v ct=%d from-contract=%v padded-numbers=%v", S, f, di, ai, prior, ct, from[0] == 0, padded)
						if each != nil {
							each(s, l, tag)
						}
						for _, dl := range drain(s.U.N) {
							if each != nil {
								each(s, dl, tag+" delivery")
							}
						}
						c.R.Eval(s.U.N.Seq())
						if i == 7 {
							sample(c, map[string]interface{}{"case": tag, "legs": s.M.History})
						}
					}
				}
			}
		}
	}
}

// bigMulti: multi-transfers of 255 / 256 / 257 / 300 entries (counts that do not fit a byte),
// repeated tokens, same shard and cross shard.
func bigMulti(c *harness.Ctx, enabled []string) {
	for i, n := range []int{255, 256, 257, 300} {
		if !mine(c, i) {
			continue
		}
		for _, S := range []uint32{1, 2} {
			s := NewScn(c.Rand("bigmulti").Fork(uint64(n)), c.R, ScnOpts{Shards: S, Enabled: enabled})
			var items []gen.Item
			for k := 0; k < n; k++ {
				switch k % 3 {
				case 0:
					items = append(items, gen.Item{ID: s.F1, Nonce: 0, Qty: big.NewInt(1)})
				case 1:
					items = append(items, gen.Item{ID: s.F2, Nonce: 0, Qty: big.NewInt(int64(k))})
				default:
					if k < 9 {
						items = append(items, gen.Item{ID: s.SFT, Nonce: 1, Qty: big.NewInt(1)})
					} else {
						items = append(items, gen.Item{ID: s.F1, Nonce: 0, Qty: big.NewInt(2)})
					}
				}
			}
			for _, dst := range [][]byte{s.Same, s.Other, s.KOther} {
				gen.Must(s.U.N.Exec(gen.MultiCall(s.A, dst, items, gen.BigGas, attachedFor(dst)...)), "big multi")
				for _, l := range drain(s.U.N) {
					gen.Must(l, "big multi delivery")
				}
			}
			c.R.Eval(s.U.N.Seq())
		}
	}
}

// selfTransfers: ESDTTransfer where sender and destination are the same account (one object plays
// both roles); NFT / multi transfers to oneself must be rejected.
func selfTransfers(c *harness.Ctx, enabled []string) {
	for i, S := range []uint32{1, 2} {
		if !mine(c, i) {
			continue
		}
		s := NewScn(c.Rand("self").Fork(uint64(S)), c.R, ScnOpts{Shards: S, Enabled: enabled})
		for _, who := range [][]byte{s.A, s.KSame} {
			if !bytes.Equal(who, s.A) {
				s.Fund(who)
			}
			for _, q := range []int64{0, 1, 25, 999, 1000, 1001} {
				for _, att := range attachedForms {
					s.U.N.Exec(gen.TransferCall(who, who, s.F1, big.NewInt(q), gen.BigGas, att...))
				}
			}
			s.U.N.Exec(gen.NFTTransferCall(who, who, s.SFT, 1, big.NewInt(1), gen.BigGas))
			s.U.N.Exec(gen.MultiCall(who, who, []gen.Item{{ID: s.F1, Nonce: 0, Qty: big.NewInt(1)}}, gen.BigGas))
		}
		c.R.Eval(s.U.N.Seq())
	}
}

// forgedDeliveries: the destination-form data of every kind of cross-shard message, submitted as
// an ordinary transaction by somebody who holds nothing, to a recipient on the same and on
// another shard: the credit-only leg must not be reachable this way.
func forgedDeliveries(c *harness.Ctx, enabled []string) {
	for i, S := range []uint32{1, 2, 3} {
		if !mine(c, i) {
			continue
		}
		for fi, f := range allForms {
			s := NewScn(c.Rand("forge").Fork(uint64(fi)), c.R, ScnOpts{Shards: S, Enabled: enabled})
			u := s.U
			var tpl []*node.Message
			u.N.Observers = append(u.N.Observers, func(n *node.Node, l *node.Leg) {
				for _, e := range l.Emitted {
					if e.Kind == node.MsgContinuation {
						tpl = append(tpl, e)
					}
				}
			})
			// a real cross-shard transfer provides the template (on one shard: build it by hand)
			if S > 1 {
				u.N.Exec(s.Xfer(f.Fn, s.A, s.Other, f.Pattern))
				drain(u.N)
			}
			if len(tpl) == 0 && f.Fn == "M" {
				items := s.Items(s.A, f.Pattern)
				args := [][]byte{gen.Big(int64(len(items)))}
				for _, it := range items {
					if it.Nonce == 0 {
						args = append(args, it.ID, []byte{0}, it.Qty.Bytes())
					}
				}
				if len(args) == 1+3*len(items) {
					tpl = append(tpl, &node.Message{Func: FMulti, Args: args})
				}
			}
			forger := gen.UserAddr(4, 0)
			for _, m := range tpl {
				for _, rcv := range [][]byte{s.Same, s.Other, s.KSame, forger} {
					for _, ct := range []vmcommon.CallType{vmcommon.DirectCall, vmcommon.AsynchronousCallBack, vmcommon.ESDTTransferAndExecute} {
						if bytes.Equal(rcv, forger) && m.Func == FTransfer {
							continue
						}
						l := u.N.Exec(node.Call{Func: m.Func, Caller: forger, Recipient: rcv, Args: m.Args, Gas: gen.BigGas, CallType: ct})
						if !l.OK {
							c.R.Cover("C01/forged-delivery-rejected:" + m.Func)
						}
						drain(u.N)
					}
				}
			}
			s.M.conservation(u.N, &node.Leg{Call: node.Call{Func: "end"}, OK: true}, true)
			c.R.Eval(u.N.Seq())
		}
	}
}

// refundMatrix: cross-shard transfers to inadmissible destinations (frozen, paused, not payable):
// the destination rejects, the refund restores the sender.
func refundMatrix(c *harness.Ctx, enabled []string) {
	i := 0
	for _, S := range []uint32{2, 3} {
		for _, f := range allForms {
			for _, why := range []string{"frozen", "paused", "nonpayable", "paused-sender-refund"} {
				i++
				if !mine(c, i) {
					continue
				}
				s := NewScn(c.Rand("refund").Fork(uint64(i)), c.R, ScnOpts{Shards: S, Enabled: enabled})
				dst := s.Other
				items := s.Items(s.A, f.Pattern)
				switch why {
				case "frozen":
					if items[0].Nonce != 0 {
						continue
					}
					gen.Must(s.U.Freeze(dst, items[0].ID), "freeze dest")
				case "paused":
					gen.Must(s.U.Pause(1, items[len(items)-1].ID), "pause dest shard")
				case "nonpayable":
					dst = s.NOther
				}
				l := s.U.N.Exec(s.Xfer(f.Fn, s.A, dst, f.Pattern))
				if why == "paused-sender-refund" && l.OK {
					// the token gets paused on the SENDER's shard while the message is in flight and
					// the destination is not payable: the refund must still land
					gen.Must(s.U.Pause(0, items[0].ID), "pause sender shard")
					s.U.N.Pool[0].To = s.NOther
				}
				drain(s.U.N)
				c.R.Eval(s.U.N.Seq())
			}
		}
	}
}

// aliasCases: token identifiers that alias another live key when concatenated with a nonce.
func aliasCases(c *harness.Ctx, enabled []string) {
	for i, S := range []uint32{1, 2} {
		if !mine(c, i) {
			continue
		}
		for variant := 0; variant < 8; variant++ {
			s := NewScn(c.Rand("alias").Fork(uint64(variant)), c.R, ScnOpts{Shards: S, Enabled: enabled})
			dst := s.Same
			if variant%2 == 1 {
				dst = s.Other
			}
			f := s.F1
			trunc, last := f[:len(f)-1], f[len(f)-1:]
			var call node.Call
			switch variant / 2 {
			case 0: // ESDTNFTTransfer of id' with nonce = last byte of a fungible id
				call = gen.NFTTransferCall(s.A, dst, trunc, uint64(last[0]), big.NewInt(1), gen.BigGas)
			case 1: // multi, same aliasing
				call = gen.MultiCall(s.A, dst, []gen.Item{{ID: trunc, Nonce: uint64(last[0]), Qty: big.NewInt(1)}}, gen.BigGas)
			case 2: // multi naming id‖nonce-byte with nonce 0: aliases the SFT entry as if fungible
				call = gen.MultiCall(s.A, dst, []gen.Item{{ID: append(append([]byte{}, s.SFT...), 1), Nonce: 0, Qty: big.NewInt(2)}}, gen.BigGas)
			case 3: // id‖0x01 with nonce 2 against nonce 0x0102
				a := s.U.W.Account(s.A)
				a.Poke([]byte(node.NoncePrefix+string(s.SFT)), gen.U64(257))
				s.M.S.Counter[rkey{string(s.A), string(s.SFT)}] = 257
				s.M.S.MaxIssued[string(s.SFT)] = 257
				gen.Must(s.U.Create(s.A, s.SFT, 7, "n258", "h258", "", 1, "u"), "create 258")
				call = gen.NFTTransferCall(s.A, dst, append(append([]byte{}, s.SFT...), 1), 2, big.NewInt(3), gen.BigGas)
			}
			l := s.U.N.Exec(call)
			if l.OK {
				c.R.Cover("C01/alias-accepted")
			} else {
				c.R.Cover("C01/alias-rejected")
			}
			drain(s.U.N)
			s.M.conservation(s.U.N, &node.Leg{Call: node.Call{Func: "end"}, OK: true}, true)
			if s.M.Enabled["C15"] {
				s.M.C15(s.U.N, &node.Leg{Call: node.Call{Func: "end"}, OK: true}, true)
			}
			c.R.Eval(s.U.N.Seq())
		}
	}
}

func init() {
	// ------------------------------------------------------------------------------------ C01
	harness.Register(&harness.Property{
		ID: "C01", Level: "exploration",
		Rule:        "cases = directed transfer matrix {3 functions; 1-5 tokens fungible/SFT/NFT/mixed/repeated} x {1,2,3 shards} x {user/contract destination, same/other shard} x {plain, attached call, call+args} x {destination holds / does not hold the tokens} + refund matrix (frozen / paused / non-payable destination) + identifier-aliasing cases + seeded random walks with adversarial calls and random delivery order; a case is non-trivial when a transfer leg commits; distinct = distinct (function, side, shard relation, token kinds, #tokens, destination-prior, attached) signatures and distinct final world digests Walk options: every fifth walk with leading-zero numbers, every fifth with injected dependency faults (aborted attempts are rolled back and processed again; a call that succeeds although the fault fired is judged like any committed leg); a third of the worlds with a merge-decoding marshaller, a third with a reference-keeping data trie.",
		Assumptions: commonAssumptions,
		Batches:     tierN(8, 32),
		Floors:      map[string]int64{"C01/transfer-leg:*": 300, "C01/conservation-key-checks": 1000, "C01/refund-forced:*": 10},
		Run: func(c *harness.Ctx) {
			en := []string{"C01"}
			transferMatrix(c, en, nil)
			refundMatrix(c, en)
			aliasCases(c, en)
			selfTransfers(c, en)
			forgedDeliveries(c, en)
			bigMulti(c, en)
			hugeNonceOps(c, en)
			runWalks(c, c.Scale(400, 1500), c.Scale(70, 120), 12, true, en...)
		},
	})
	// ------------------------------------------------------------------------------------ C02
	harness.Register(&harness.Property{
		ID: "C02", Level: "exploration",
		Rule:        "cases = every supply function x prior balance {0,1,1000,2^64,2^200} x amount {0,1,bal-1,bal,bal+1,2*bal,100-byte,101-byte} + wipe on frozen / not frozen accounts + every leg of seeded random walks (all 23 functions: 'leaves balances unchanged' half); non-trivial = committed leg; distinct = (function, prior class, amount class, outcome)",
		Assumptions: commonAssumptions,
		Batches:     tierN(8, 32),
		Floors:      map[string]int64{"C02/supply-leg:*": 100, "C02/unchanged-leg:*": 100, "C02/overdraft-rejected": 10},
		Run: func(c *harness.Ctx) {
			c02Directed(c)
			transferMatrix(c, []string{"C02"}, nil)
			selfTransfers(c, []string{"C02"})
			forgedDeliveries(c, []string{"C02"})
			hugeNonceOps(c, []string{"C02"})
			bigMulti(c, []string{"C02"})
			runWalks(c, c.Scale(400, 1500), c.Scale(70, 120), 15, true, "C02")
		},
	})
	// ------------------------------------------------------------------------------------ C03
	harness.Register(&harness.Property{
		ID: "C03", Level: "exploration",
		Rule:        "cases = for each role-gated function every one of the 2^7 subsets of roles held for the target token x {required role held only for a different token} x {quantity 1, 2}; system-only functions called by user / contract / DNS / owner (sender side, same and cross shard); owner / ex-owner / stranger for ChangeOwnerAddress and ClaimDeveloperRewards; DNS / non-DNS for SetUserName; + seeded random walks with role set/unset/hand-over histories; non-trivial = gated call attempted; distinct = (function, role subset, authorised?, outcome) + every system-only function attempted by look-alikes of the system contract address (all addresses at distance one byte, other shard-identifier tails, truncated / extended, the system account, another metachain contract).",
		Assumptions: commonAssumptions,
		Batches:     tierN(8, 32),
		Floors:      map[string]int64{"C03/authorised-success:*": 200, "C03/unauthorised-rejected:*": 500},
		Run: func(c *harness.Ctx) {
			c03Directed(c)
			for _, S := range []uint32{1, 2} {
				if mine(c, 5+int(S)) {
					growthHistory(c, 2, S, "C03")
				}
			}
			runWalks(c, c.Scale(400, 1500), c.Scale(70, 120), 20, true, "C03")
		},
	})
	// ------------------------------------------------------------------------------------ C04
	harness.Register(&harness.Property{
		ID: "C04", Level: "exploration",
		Rule:        "cases = {13 balance/metadata-changing operations} x {acting account frozen, destination frozen, token paused on sender shard, token paused on destination shard} x {same, cross shard} x {4 call types} x {plain, attached call}, each followed by delivery and refund; freeze->ops->unfreeze restoration; + seeded random walks interleaving freeze/unfreeze/pause/unpause/wipe with everything; non-trivial = a balance-changing attempt while frozen/paused (blocked or exempt); distinct = (function, side, reason, call type, #args)",
		Assumptions: commonAssumptions,
		Batches:     tierN(8, 32),
		Floors:      map[string]int64{"C04/blocked:*": 150, "C04/exempt-refund:*": 10, "C04/unfreeze-restores": 5},
		Run: func(c *harness.Ctx) {
			c04Directed(c)
			c04SystemAddressForms(c)
			c04LookAlikes(c)
			c04FlagFaults(c)
			if mine(c, 1) {
				c04MetaNode(c)
			}
			hugeNonceOps(c, []string{"C04"})
			runWalks(c, c.Scale(400, 1500), c.Scale(70, 120), 10, true, "C04")
		},
	})
	// ------------------------------------------------------------------------------------ C05
	harness.Register(&harness.Property{
		ID: "C05", Level: "exploration",
		Rule:        "cases = SaveKeyValue key grammar (every length 0..12, every prefix relation to ELROND incl. one byte off at each position and case variants, keys equal to live token/role/nonce keys) x values {empty, unchanged, new} x 1..4 pairs with duplicates x callers {self user, other user, contract, self contract}; footprint oracle on every leg of the directed transfer matrix and of seeded random walks (all 23 functions); non-trivial = committed leg with a non-empty diff; distinct = (function, key class, caller class, outcome) and final world digests",
		Assumptions: commonAssumptions,
		Batches:     tierN(8, 32),
		Floors:      map[string]int64{"C05/savekv-accepted": 100, "C05/savekv-rejected:*": 100, "C05/footprint-leg:*": 500},
		Run: func(c *harness.Ctx) {
			c05Directed(c)
			hugeNonceOps(c, []string{"C05"})
			transferMatrix(c, []string{"C05"}, nil)
			runWalks(c, c.Scale(400, 1500), c.Scale(70, 120), 25, true, "C05")
		},
	})
	// ------------------------------------------------------------------------------------ C07
	harness.Register(&harness.Property{
		ID: "C07", Level: "exploration",
		Rule:        "cases = seeded histories over {create, burn latest, transfer away, hand-over same-shard, hand-over cross-shard with late delivery, back-to-back duplicate delivery, further creates, hand-over back} with 2 tokens per creator on 1-3 shards + random walks; non-trivial = a committed create or hand-over leg; distinct = (token, nonce, creator) and (hand-over route, counter)",
		Assumptions: commonAssumptions,
		Batches:     tierN(8, 32),
		Floors:      map[string]int64{"C07/create": 300, "C07/handover-complete:*": 60, "C07/create-rejected-during-handover": 5},
		Run: func(c *harness.Ctx) {
			c07Histories(c)
			hugeNonceOps(c, []string{"C07"})
			runWalks(c, c.Scale(400, 1500), c.Scale(70, 120), 8, true, "C07")
		},
	})
	// ------------------------------------------------------------------------------------ C08
	harness.Register(&harness.Property{
		ID: "C08", Level: "exploration",
		Rule:        "cases = metadata generator (empty / 1-byte / 4 KiB fields, 0..6 URIs incl. empty, royalties {0,1,9999,10000,10001,2^32-1,2^32,2^32+1}) x routes (single / multi, same / cross shard, chains of 1..6 hops over 2-3 shards) with the production codec; AddURI / UpdateAttributes between hops; different-hash credit (state seeded directly); + the directed transfer matrix + random walks; non-trivial = a hop, create or metadata operation commits; distinct = (function, side, field sizes)",
		Assumptions: commonAssumptions,
		Batches:     tierN(8, 32),
		Floors:      map[string]int64{"C08/create": 100, "C08/hop:*": 200, "C08/payload:*": 50, "C08/meta-op:*": 50, "C08/wrong-hash-rejected": 4},
		Run: func(c *harness.Ctx) {
			c08Routes(c)
			hugeNonceOps(c, []string{"C08"})
			transferMatrix(c, []string{"C08"}, nil)
			forgedDeliveries(c, []string{"C08"})
			runWalks(c, c.Scale(400, 1500), c.Scale(70, 120), 8, true, "C08")
		},
	})
	// ------------------------------------------------------------------------------------ C09
	harness.Register(&harness.Property{
		ID: "C09", Level: "exploration",
		Rule:        "cases = full product {payability oracle answer for the destination: payable, non-payable, error} x {4 call types} x {caller: user, contract, system contract} x {argument count: min, min+1, min+2} x {ESDTTransfer, ESDTNFTTransfer, multi fungible-only / NFT-only / mixed, 1-3 tokens} x {same-shard sender leg, destination leg} x {user / contract destination}; metachain / self / wrong-length destinations; + random walks; non-trivial = a credit is attempted; distinct = (function, side, kinds, oracle, exemption, call type, extra args) + the oracle answer changing between two transfers to one destination (also via a new SetPayableHandler object; directed and in walks); every in-flight message also delivered flagged return-after-error and as crafted variants with zero-quantity NFT entries.",
		Assumptions: commonAssumptions,
		Batches:     tierN(8, 32),
		Exhaustive:  false,
		Floors:      map[string]int64{"C09/credit:*": 400, "C09/rejected:*": 150},
		Run: func(c *harness.Ctx) {
			c09Product(c)
			if c.Batch == 0 {
				c09MetaNode(c)
			}
			runWalks(c, c.Scale(300, 1100), c.Scale(70, 120), 10, true, "C09")
			runWalksOpt(c, c.Scale(100, 400), WalkOpts{Steps: c.Scale(70, 120), Hostile: 10, NoSysDest: true, FlipPayable: true}, "C09")
		},
	})
	// ------------------------------------------------------------------------------------ C10
	harness.Register(&harness.Property{
		ID: "C10", Level: "exploration",
		Rule:        "cases = every accepted leg of the directed transfer matrix (3 functions, both sides, 1..5 tokens, with/without attached call and call arguments incl. empty arguments, leading zeros and multi-word numbers), of the refund matrix, of hand-over / SetUserName / ESDTBurn scenarios and of random walks; emitted data compared with the expected encoding computed from the inputs (payloads by the reference codec) and re-parsed by the library's call-arguments parser; the ESDT-transfer parser's report compared with the ledger diff; non-trivial = a data message is emitted or a transfer leg commits; distinct = (function, side, #tokens, kinds, #call args)",
		Assumptions: commonAssumptions,
		Batches:     tierN(8, 32),
		Floors:      map[string]int64{"C10/emitted-checked:*": 200, "C10/xfer-parser-checked:*": 500},
		Run: func(c *harness.Ctx) {
			en := []string{"C10"}
			transferMatrix(c, en, nil)
			refundMatrix(c, en)
			c10Extra(c)
			bigMulti(c, en)
			for v := 0; v < 2; v++ {
				if mine(c, 2+v) {
					growthHistory(c, v, 2, en...)
				}
			}
			runWalks(c, c.Scale(400, 1500), c.Scale(70, 120), 10, true, en...)
		},
	})
}

// ---------------------------------------------------------------------------------------------
// C02 directed

func c02Directed(c *harness.Ctx) {
	priors := []*big.Int{big.NewInt(0), big.NewInt(1), big.NewInt(1000), gen.Pow2(64), gen.Pow2(200)}
	amounts := func(bal *big.Int) []*big.Int {
		b100 := new(big.Int).SetBytes(bytes.Repeat([]byte{0xff}, 100))
		b101 := new(big.Int).SetBytes(bytes.Repeat([]byte{0xff}, 101))
		return []*big.Int{big.NewInt(0), big.NewInt(1), new(big.Int).Sub(bal, big.NewInt(1)), new(big.Int).Set(bal), new(big.Int).Add(bal, big.NewInt(1)),
			new(big.Int).Mul(bal, big.NewInt(2)), b100, b101,
			big.NewInt(255), big.NewInt(256), gen.Pow2(32), new(big.Int).Sub(gen.Pow2(63), big.NewInt(1)), gen.Pow2(63), new(big.Int).Sub(gen.Pow2(64), big.NewInt(1)), gen.Pow2(64), new(big.Int).Add(gen.Pow2(64), big.NewInt(1)), gen.Pow2(128)}
	}
	i := 0
	for _, S := range []uint32{1, 2} {
		for pi, prior := range priors {
			for _, fn := range []string{FLocalMint, FLocalBurn, FBurn, FNFTAddQty, FNFTBurn, FNFTCreate, FWipe} {
				for ai, amt := range amounts(prior) {
					i++
					if !mine(c, i) || amt.Sign() < 0 {
						continue
					}
					s := NewScn(c.Rand("c02").Fork(uint64(i)), c.R, ScnOpts{Shards: S, Enabled: []string{"C02"}, NoHold: true})
					u := s.U
					A := s.A
					gen.Must(u.SetRoles(A, s.F1, RoleMint, RoleBurn), "roles")
					gen.Must(u.SetRoles(A, s.SFT, RoleCreate, RoleAddQty, RoleNFTBurn), "roles")
					if prior.Sign() > 0 {
						gen.Must(u.Issue(A, s.F1, prior), "prior")
					}
					var l *node.Leg
					over := false
					switch fn {
					case FLocalMint:
						l = u.N.Exec(gen.SelfCall(fn, A, gen.BigGas, s.F1, amt.Bytes()))
					case FLocalBurn:
						l = u.N.Exec(gen.SelfCall(fn, A, gen.BigGas, s.F1, amt.Bytes()))
						over = amt.Cmp(prior) > 0
					case FBurn:
						l = u.N.Exec(node.Call{Func: fn, Caller: A, Recipient: gen.SysSC, Args: [][]byte{s.F1, amt.Bytes()}, Gas: gen.BigGas})
						over = amt.Cmp(prior) > 0
					case FNFTCreate:
						l = u.N.Exec(gen.SelfCall(fn, A, gen.BigGas, s.SFT, amt.Bytes(), []byte("n"), gen.Big(5), []byte("h"), []byte("a"), []byte("u")))
					case FNFTAddQty, FNFTBurn:
						q := prior
						if q.Sign() == 0 {
							q = big.NewInt(1)
						}
						gen.Must(u.N.Exec(gen.SelfCall(FNFTCreate, A, gen.BigGas, s.SFT, q.Bytes(), []byte("n"), gen.Big(5), []byte("h"), []byte("a"), []byte("u"))), "create")
						l = u.N.Exec(gen.SelfCall(fn, A, gen.BigGas, s.SFT, gen.U64(1), amt.Bytes()))
						over = fn == FNFTBurn && amt.Cmp(q) > 0
					case FWipe:
						if ai%2 == 0 {
							gen.Must(u.Freeze(A, s.F1), "freeze")
						}
						l = u.Wipe(A, s.F1)
					}
					if over {
						if l.OK {
							s.M.viol("C02", "overdraft-accepted:"+fn, fmt.Sprintf("%s of %s succeeded with a holding of %s", fn, amt, prior), l)
						} else {
							c.R.Cover("C02/overdraft-rejected")
						}
						// the same overdraft with every flag a protocol-generated call can carry
						for _, ct := range []vmcommon.CallType{vmcommon.AsynchronousCall, vmcommon.AsynchronousCallBack, vmcommon.ESDTTransferAndExecute} {
							c2 := l.Call
							c2.CallType = ct
							c2.RetAfterErr = ct == vmcommon.AsynchronousCallBack
							if l2 := u.N.Exec(c2); l2.OK {
								s.M.viol("C02", "overdraft-accepted:"+fn, fmt.Sprintf("%s of %s succeeded with a holding of %s (call type %d, return-after-error %v)", fn, amt, prior, ct, c2.RetAfterErr), l2)
							} else {
								c.R.Cover("C02/overdraft-rejected")
							}
						}
					}
					c.R.DistinctS("C02", fn, fmt.Sprint(pi), fmt.Sprint(ai), fmt.Sprint(l.OK))
					c.R.Eval(u.N.Seq())
					if i == 9 {
						sample(c, map[string]interface{}{"case": fmt.Sprintf("%s prior=%s amount=%s", fn, prior, amt), "legs": s.M.History})
					}
				}
			}
		}
	}
}

// ---------------------------------------------------------------------------------------------
// C03 directed

func c03Directed(c *harness.Ctx) {
	i := 0
	type op struct {
		fn   string
		role string
		mk   func(s *Scn, B []byte) node.Call
	}
	ops := []op{
		{FLocalMint, RoleMint, func(s *Scn, B []byte) node.Call { return gen.SelfCall(FLocalMint, B, gen.BigGas, s.F1, gen.Big(5)) }},
		{FLocalBurn, RoleBurn, func(s *Scn, B []byte) node.Call { return gen.SelfCall(FLocalBurn, B, gen.BigGas, s.F1, gen.Big(5)) }},
		{FNFTCreate, RoleCreate, func(s *Scn, B []byte) node.Call {
			return gen.SelfCall(FNFTCreate, B, gen.BigGas, s.SFT, gen.Big(1), []byte("n"), gen.Big(1), []byte("h"), []byte("a"), []byte("u"))
		}},
		{FNFTCreate + "-qty2", RoleCreate, func(s *Scn, B []byte) node.Call {
			return gen.SelfCall(FNFTCreate, B, gen.BigGas, s.SFT, gen.Big(2), []byte("n"), gen.Big(1), []byte("h"), []byte("a"), []byte("u"))
		}},
		{FNFTCreate + "-qty2^64", RoleCreate, func(s *Scn, B []byte) node.Call {
			return gen.SelfCall(FNFTCreate, B, gen.BigGas, s.SFT, gen.Pow2(64).Bytes(), []byte("n"), gen.Big(1), []byte("h"), []byte("a"), []byte("u"))
		}},
		{FNFTCreate + "-qty2^64+1", RoleCreate, func(s *Scn, B []byte) node.Call {
			return gen.SelfCall(FNFTCreate, B, gen.BigGas, s.SFT, new(big.Int).Add(gen.Pow2(64), big.NewInt(1)).Bytes(), []byte("n"), gen.Big(1), []byte("h"), []byte("a"), []byte("u"))
		}},
		{FNFTCreate + "-qty2^128", RoleCreate, func(s *Scn, B []byte) node.Call {
			return gen.SelfCall(FNFTCreate, B, gen.BigGas, s.SFT, gen.Pow2(128).Bytes(), []byte("n"), gen.Big(1), []byte("h"), []byte("a"), []byte("u"))
		}},
		{FNFTAddQty, RoleAddQty, func(s *Scn, B []byte) node.Call {
			return gen.SelfCall(FNFTAddQty, B, gen.BigGas, s.SFT, gen.U64(1), gen.Big(3))
		}},
		{FNFTBurn, RoleNFTBurn, func(s *Scn, B []byte) node.Call {
			return gen.SelfCall(FNFTBurn, B, gen.BigGas, s.SFT, gen.U64(1), gen.Big(1))
		}},
		{FNFTAddURI, RoleAddURI, func(s *Scn, B []byte) node.Call {
			return gen.SelfCall(FNFTAddURI, B, gen.BigGas, s.SFT, gen.U64(1), []byte("uri-x"))
		}},
		{FNFTUpdAttr, RoleUpdAttr, func(s *Scn, B []byte) node.Call {
			return gen.SelfCall(FNFTUpdAttr, B, gen.BigGas, s.SFT, gen.U64(1), []byte("attr-x"))
		}},
	}
	for _, S := range []uint32{1, 2} {
		for subset := 0; subset < 128; subset++ {
			for _, otherToken := range []bool{false, true} {
				i++
				if !mine(c, i) {
					continue
				}
				s := NewScn(c.Rand("c03").Fork(uint64(i)), c.R, ScnOpts{Shards: S, Enabled: []string{"C03"}})
				u := s.U
				B := s.Same
				// B gets holdings (so that only authority decides) and the role subset for F1 and SFT
				gen.Must(u.Issue(B, s.F1, big.NewInt(100)), "fund B")
				gen.Must(u.N.Exec(gen.NFTTransferCall(s.A, B, s.SFT, 1, big.NewInt(5), gen.BigGas)), "sft to B")
				var roles []string
				for b := 0; b < 7; b++ {
					if subset&(1<<uint(b)) != 0 {
						roles = append(roles, gen.AllRoles[b])
					}
				}
				// the stored order varies with the subset (rotations and a reversal)
				if len(roles) > 1 {
					k := (subset / 3) % len(roles)
					roles = append(append([]string{}, roles[k:]...), roles[:k]...)
					if subset%2 == 1 {
						for a, b := 0, len(roles)-1; a < b; a, b = a+1, b-1 {
							roles[a], roles[b] = roles[b], roles[a]
						}
					}
				}
				if len(roles) > 0 {
					gen.Must(u.SetRoles(B, s.F1, roles...), "subset F1")
					gen.Must(u.SetRoles(B, s.SFT, roles...), "subset SFT")
				}
				if otherToken {
					gen.Must(u.SetRoles(B, s.F2, gen.AllRoles...), "all roles other token")
					gen.Must(u.SetRoles(B, s.NFT, gen.AllRoles...), "all roles other token")
				}
				for _, o := range ops {
					l := u.N.Exec(o.mk(s, B))
					has := s.M.S.HasRole(B, l.Call.Args[0], o.role)
					if strings.HasPrefix(o.fn, FNFTCreate+"-qty") {
						has = has && s.M.S.HasRole(B, l.Call.Args[0], RoleAddQty)
					}
					if !has {
						if !l.OK {
							c.R.Cover("C03/unauthorised-rejected:" + o.fn)
						}
					} else if !l.OK {
						c.R.Cover("C03/authorised-but-failed:" + o.fn)
					}
					c.R.DistinctS("C03", o.fn, fmt.Sprint(subset), fmt.Sprint(otherToken), fmt.Sprint(l.OK))
				}
				// phase 2: the system contract revokes several roles in ONE call (every order of the
				// stored list is reached over the subsets), then everything is attempted again
				if len(roles) > 1 {
					rev := roles
					if subset%3 == 1 {
						rev = roles[:len(roles)-1]
					} else if subset%3 == 2 {
						rev = roles[1:]
					}
					// the revocation list may name a role the account does not hold, before the others
					if subset%2 == 0 {
						for b := 0; b < 7; b++ {
							if subset&(1<<uint(b)) == 0 {
								rev = append([]string{gen.AllRoles[b]}, rev...)
								break
							}
						}
					}
					gen.Must(u.UnsetRoles(B, s.F1, rev...), "multi unset F1")
					gen.Must(u.UnsetRoles(B, s.SFT, rev...), "multi unset SFT")
					for _, o := range ops {
						l := u.N.Exec(o.mk(s, B))
						if !l.OK {
							c.R.Cover("C03/unauthorised-rejected:" + o.fn + ":after-unset")
						}
					}
				}
				c.R.Eval(u.N.Seq())
				if i == 41 {
					sample(c, map[string]interface{}{"case": fmt.Sprintf("roles held by the caller for the target token: %v; all roles for another token: %v", roles, otherToken), "legs": s.M.History[len(s.M.History)-8:]})
				}
			}
		}
	}
	// system-only functions attempted by everybody else; owner-gated and DNS-gated functions
	for _, S := range []uint32{1, 2, 3} {
		i++
		if !mine(c, i) {
			continue
		}
		s := NewScn(c.Rand("c03b").Fork(uint64(S)), c.R, ScnOpts{Shards: S, Enabled: []string{"C03"}})
		u := s.U
		gen.Must(u.Freeze(s.Same, s.F1), "freeze")
		callers := [][]byte{s.A, s.Same, s.Other, s.KSame, s.KOther, u.DNS}
		targets := [][]byte{s.A, s.Same, s.Other, s.KSame, gen.SysAcc}
		for _, caller := range callers {
			for _, tgt := range targets {
				for _, ct := range []vmcommon.CallType{vmcommon.DirectCall, vmcommon.AsynchronousCall, vmcommon.AsynchronousCallBack, vmcommon.ESDTTransferAndExecute} {
					calls := []node.Call{
						{Func: FSetRole, Args: [][]byte{s.F1, []byte(RoleMint)}},
						{Func: FUnSetRole, Args: [][]byte{s.F1, []byte(RoleMint)}},
						{Func: FFreeze, Args: [][]byte{s.F1}},
						{Func: FUnFreeze, Args: [][]byte{s.F1}},
						{Func: FWipe, Args: [][]byte{s.F1}},
						{Func: FPause, Args: [][]byte{s.F1}},
						{Func: FUnPause, Args: [][]byte{s.F1}},
						{Func: FHandOver, Args: [][]byte{s.SFT, s.Same}},
						{Func: FHandOver, Args: [][]byte{s.SFT, gen.U64(9)}},
					}
					for _, call := range calls {
						call.Caller, call.Recipient, call.CallType, call.Gas = caller, tgt, ct, gen.BigGas
						l := u.N.Exec(call)
						if !l.OK {
							c.R.Cover("C03/unauthorised-rejected:" + call.Func)
						}
						for _, dl := range drain(u.N) {
							if !dl.OK {
								c.R.Cover("C03/unauthorised-rejected:" + call.Func + ":dst")
							}
						}
					}
				}
			}
		}
		// look-alikes of the ESDT system contract address: every address at Hamming distance one
		// byte (the other metachain contracts and "the same contract on another shard" among them),
		// a truncated and an extended one, and the system ACCOUNT address
		{
			var fakes [][]byte
			for p := 0; p < len(gen.SysSC); p++ {
				for _, d := range []byte{0x01, 0x80, 0xff} {
					a := append([]byte{}, gen.SysSC...)
					a[p] ^= d
					fakes = append(fakes, a)
				}
			}
			for _, tail := range [][]byte{{0, 0}, {0, 1}, {0xff, 0xfe}, {0, 0xff}} {
				a := append([]byte{}, gen.SysSC...)
				copy(a[30:], tail)
				fakes = append(fakes, a)
			}
			fakes = append(fakes, gen.SysSC[:31], append(append([]byte{}, gen.SysSC...), 0xff), gen.SysAcc, otherMetaSC)
			for _, caller := range fakes {
				for _, tgt := range [][]byte{s.Same, gen.SysAcc} {
					calls := []node.Call{
						{Func: FSetRole, Args: [][]byte{s.F1, []byte(RoleMint)}},
						{Func: FUnSetRole, Args: [][]byte{s.F1, []byte(RoleMint)}},
						{Func: FFreeze, Args: [][]byte{s.F2}},
						{Func: FUnFreeze, Args: [][]byte{s.F1}},
						{Func: FWipe, Args: [][]byte{s.F1}},
						{Func: FPause, Args: [][]byte{s.F1}},
						{Func: FUnPause, Args: [][]byte{s.F1}},
						{Func: FTransfer, Args: [][]byte{s.F1, gen.Big(7)}}, // "issuance" by an impostor
					}
					// (the hand-over is left out: its arrival leg is by design accepted from any
					// origin that has no sender account, the protocol being the only producer)
					for _, call := range calls {
						if call.Func == FTransfer && bytes.Equal(tgt, gen.SysAcc) {
							continue // T7: the system account is no transfer destination
						}
						call.Caller, call.Recipient, call.Gas = caller, tgt, gen.BigGas
						// a look-alike that maps to the metachain runs where the target lives with no
						// sender account, exactly as the real system contract; one that maps to a
						// shard is an ordinary sender there
						var l *node.Leg
						if world.ComputeShard(u.W.NumShards, caller) >= u.W.NumShards && bytes.Equal(tgt, gen.SysAcc) {
							l = u.N.ExecAt(0, call)
						} else {
							l = u.N.Exec(call)
						}
						if l != nil && !l.OK {
							c.R.Cover("C03/unauthorised-rejected:" + call.Func + ":look-alike")
						}
						drain(u.N)
					}
				}
			}
		}
		// owner-gated
		for _, k := range [][]byte{s.KSame, s.KOther} {
			for _, fn := range []string{FChgOwner, FClaim} {
				for _, caller := range [][]byte{s.Same, s.Other, s.KSame, u.DNS, s.A, s.A} {
					call := node.Call{Func: fn, Caller: caller, Recipient: k, Gas: gen.BigGas}
					if fn == FChgOwner {
						call.Args = [][]byte{s.Same}
					}
					owner := u.W.Account(k).Owner
					u.N.Exec(call)
					for _, dl := range drain(u.N) {
						_ = dl
					}
					if !bytes.Equal(owner, caller) {
						c.R.Cover("C03/unauthorised-rejected:" + fn)
					}
					// after a successful ChangeOwnerAddress A is the ex-owner: the second attempt by A must fail
				}
			}
		}
		// DNS-gated
		for _, caller := range [][]byte{u.DNS, s.A, s.KSame, s.Other, world.LateDNS} {
			for _, tgt := range [][]byte{s.Same, s.Other} {
				u.N.Exec(node.Call{Func: FSetName, Caller: caller, Recipient: tgt, Args: [][]byte{[]byte("name-" + fmt.Sprint(len(caller)))}, Gas: gen.BigGas})
				drain(u.N)
				if !bytes.Equal(caller, u.DNS) {
					c.R.Cover("C03/unauthorised-rejected:" + FSetName)
				}
			}
		}
		c.R.Eval(u.N.Seq())
	}
}

// c04SystemAddressForms: pause / un-pause addressed to every form of the system account address
// the guard admits (30 bytes ff followed by any two bytes): the token is paused / released on that
// shard whatever form was used.
func c04SystemAddressForms(c *harness.Ctx) {
	tails := [][]byte{{0xff, 0xff}, {0, 0}, {0, 1}, {0xff, 0xfe}, {0x12, 0x34}}
	for i, S := range []uint32{1, 2} {
		if !mine(c, i+5) {
			continue
		}
		for ti, tail := range tails {
			s := NewScn(c.Rand("c04sys").Fork(uint64(ti)), c.R, ScnOpts{Shards: S, Enabled: []string{"C04"}})
			u := s.U
			form := append(bytes.Repeat([]byte{0xff}, 30), tail...)
			other := append(bytes.Repeat([]byte{0xff}, 30), tails[(ti+1)%len(tails)]...)
			for _, tok := range [][]byte{s.F1, s.SFT} {
				l := u.N.ExecAt(0, node.Call{Func: FPause, Caller: gen.SysSC, Recipient: form, Args: [][]byte{tok}})
				if l == nil || !l.OK {
					c.R.Cover("C04/pause-form-refused")
					continue
				}
				c.R.Cover("C04/pause-form-accepted")
				// everything that moves the token on this shard is now refused (judged by the monitor)
				u.N.Exec(s.Xfer("T", s.A, s.Same, "f"))
				u.N.Exec(s.Xfer("N", s.A, s.Same, "s"))
				u.N.Exec(s.Xfer("M", s.A, s.Same, "fs"))
				u.N.Exec(gen.SelfCall(FLocalMint, s.A, gen.BigGas, s.F1, gen.Big(5)))
				u.N.Exec(gen.SelfCall(FNFTAddQty, s.A, gen.BigGas, s.SFT, gen.U64(1), gen.Big(5)))
				drain(u.N)
				if l2 := u.N.ExecAt(0, node.Call{Func: FUnPause, Caller: gen.SysSC, Recipient: other, Args: [][]byte{tok}}); l2 != nil && l2.OK {
					gen.Must(u.N.Exec(s.Xfer("M", s.A, s.Same, "fs")), "transfer after un-pause through another form of the address")
					c.R.Cover("C04/unpause-form-accepted")
				}
				drain(u.N)
			}
			c.R.Eval(u.N.Seq())
		}
	}
}

// c04LookAlikes: ordinary accounts whose addresses resemble the ESDT system contract's (the exempt
// account is that one address, not its neighbours): same first 30 bytes with another shard
// identifier, one byte off, and an ordinary contract for comparison. Each is funded, given roles,
// frozen (then the token paused) and tries to move, burn and mint; it is also a destination.
func c04LookAlikes(c *harness.Ctx) {
	sys := gen.SysSC
	mod := func(at int, v byte) []byte { a := append([]byte{}, sys...); a[at] = v; return a }
	tail := func(x, y byte) []byte { a := append([]byte{}, sys...); a[30], a[31] = x, y; return a }
	likes := [][]byte{tail(0, 0), tail(0xff, 0), tail(0x01, 0), tail(0xff, 0xfe), mod(29, 3), mod(9, 1), mod(20, 7), gen.ContractAddr(5, 0)}
	for li, L := range likes {
		if !mine(c, li+2) {
			continue
		}
		for _, S := range []uint32{1, 2} {
			s := NewScn(c.Rand("c04like").Fork(uint64(li)), c.R, ScnOpts{Shards: S, Enabled: []string{"C04"}})
			u := s.U
			if world.ComputeShard(u.W.NumShards, L) >= u.W.NumShards {
				continue // maps to the metachain in this layout: no account to hold anything
			}
			acc := u.W.Account(L)
			acc.CodeMeta = (&vmcommon.CodeMetadata{Payable: true, Readable: true}).ToBytes()
			if l := u.Issue(L, s.F1, big.NewInt(500)); !l.OK {
				c.R.Cover("C04/lookalike-cannot-be-funded")
				continue
			}
			u.SetRoles(L, s.F1, RoleMint, RoleBurn)
			attempts := func() {
				u.N.Exec(gen.TransferCall(L, s.Same, s.F1, big.NewInt(5), gen.BigGas))
				u.N.Exec(gen.TransferCall(L, s.Other, s.F1, big.NewInt(5), gen.BigGas))
				u.N.Exec(gen.MultiCall(L, s.Same, []gen.Item{{ID: s.F1, Qty: big.NewInt(2)}}, gen.BigGas))
				u.N.Exec(node.Call{Func: FBurn, Caller: L, Recipient: gen.SysSC, Args: [][]byte{s.F1, gen.Big(3)}, Gas: gen.BigGas})
				u.N.Exec(gen.SelfCall(FLocalMint, L, gen.BigGas, s.F1, gen.Big(3)))
				u.N.Exec(gen.SelfCall(FLocalBurn, L, gen.BigGas, s.F1, gen.Big(3)))
				u.N.Exec(gen.TransferCall(s.A, L, s.F1, big.NewInt(4), gen.BigGas))
				u.N.Exec(gen.MultiCall(s.A, L, []gen.Item{{ID: s.F1, Qty: big.NewInt(2)}}, gen.BigGas))
				drain(u.N)
			}
			u.Freeze(L, s.F1)
			attempts()
			u.UnFreeze(L, s.F1)
			for sh := uint32(0); sh < S; sh++ {
				u.N.ExecAt(sh, node.Call{Func: FPause, Caller: gen.SysSC, Recipient: vmcommon.SystemAccountAddress, Args: [][]byte{s.F1}})
			}
			attempts()
			c.R.Cover("C04/lookalike-accounts")
			c.R.Eval(u.N.Seq())
		}
	}
}

// c04FlagFaults: the k-th dependency call of a flag operation (pause, un-pause, freeze, un-freeze)
// fails. An operation that fails is an aborted attempt (rolled back, the shadow does not move);
// one that reports success has taken effect - and then everything that moves the token is judged
// against it. Six consecutive worlds per case, so that every environment variant (copy-per-load
// accounts adapter among them) is met.
func c04FlagFaults(c *harness.Ctx) {
	ops := []string{FPause, FUnPause, FFreeze, FUnFreeze}
	n := 0
	for oi, op := range ops {
		for k := 1; k <= 5; k++ {
			if !mine(c, oi*5+k) {
				continue
			}
			for rep := 0; rep < 6; rep++ {
				s := NewScn(c.Rand("c04ff").Fork(uint64(oi*100+k*10+rep)), c.R, ScnOpts{Shards: 1, Enabled: []string{"C04"}})
				u := s.U
				// the state the operation starts from
				switch op {
				case FUnPause:
					u.Pause(0, s.F1)
				case FUnFreeze:
					u.Freeze(s.A, s.F1)
				}
				u.N.AbortOnFault = true
				u.W.Fault = &world.FaultPlan{FailAt: k, Injectable: injectable(u.W), Err: world.FaultErrors[(k+rep)%len(world.FaultErrors)]}
				switch op {
				case FPause:
					u.Pause(0, s.F1)
				case FUnPause:
					u.UnPause(0, s.F1)
				case FFreeze:
					u.Freeze(s.A, s.F1)
				case FUnFreeze:
					u.UnFreeze(s.A, s.F1)
				}
				u.W.Fault = nil
				u.N.AbortOnFault = false
				u.N.Exec(s.Xfer("T", s.A, s.Same, "f"))
				u.N.Exec(s.Xfer("M", s.A, s.Same, "f"))
				u.N.Exec(gen.SelfCall(FLocalMint, s.A, gen.BigGas, s.F1, gen.Big(3)))
				u.N.Exec(gen.SelfCall(FLocalBurn, s.A, gen.BigGas, s.F1, gen.Big(3)))
				u.N.Exec(s.Xfer("T", s.Same, s.A, "f"))
				drain(u.N)
				n++
				c.R.Eval(u.N.Seq())
			}
		}
	}
	c.R.CoverN("C04/flag-operations-under-faults", int64(n))
}

// c04MetaNode: the executing node reports the metachain as its own shard. Frozen stays frozen and
// paused stays paused there as anywhere (the library does not know which accounts a metachain holds).
func c04MetaNode(c *harness.Ctx) {
	w, err := world.New(world.Config{NumShards: 1, MetaSelf: true, DNS: [][]byte{gen.UserAddr(9, 0)}})
	if err != nil {
		return
	}
	w.ConfirmEpoch(0)
	n := node.New(w)
	m := NewMon(c.R, 1, "C04")
	m.Attach(n)
	A, B := gen.UserAddr(1, 0), gen.UserAddr(2, 0)
	tok := []byte("FUNA-a1b2c3")
	m.Registered = append(m.Registered, tok)
	sys := func(fn string, to []byte, args ...[]byte) *node.Leg {
		return n.ExecAt(0, node.Call{Func: fn, Caller: gen.SysSC, Recipient: to, Args: args})
	}
	sys(FTransfer, A, tok, gen.Big(1000))
	sys(FTransfer, B, tok, gen.Big(1000))
	sys(FSetRole, A, tok, []byte(RoleMint), []byte(RoleBurn))
	attempts := func() {
		n.ExecSenderAt(0, gen.TransferCall(A, B, tok, big.NewInt(5), gen.BigGas), true)
		n.ExecSenderAt(0, gen.TransferCall(B, A, tok, big.NewInt(5), gen.BigGas), true)
		n.ExecSenderAt(0, gen.MultiCall(A, B, []gen.Item{{ID: tok, Qty: big.NewInt(2)}}, gen.BigGas), true)
		n.ExecSenderAt(0, gen.MultiCall(B, A, []gen.Item{{ID: tok, Qty: big.NewInt(2)}}, gen.BigGas), true)
		n.ExecSenderAt(0, gen.SelfCall(FLocalMint, A, gen.BigGas, tok, gen.Big(3)), true)
		n.ExecSenderAt(0, gen.SelfCall(FLocalBurn, A, gen.BigGas, tok, gen.Big(3)), true)
		// arrival legs (no sender account)
		n.ExecAt(0, gen.TransferCall(gen.UserAddr(3, 0), A, tok, big.NewInt(1), gen.BigGas))
	}
	sys(FFreeze, A, tok)
	attempts()
	sys(FUnFreeze, A, tok)
	n.ExecAt(0, node.Call{Func: FPause, Caller: gen.SysSC, Recipient: vmcommon.SystemAccountAddress, Args: [][]byte{tok}})
	attempts()
	c.R.Cover("C04/metachain-node")
	c.R.Eval(n.Seq())
}

// ---------------------------------------------------------------------------------------------
// C04 directed

func c04Directed(c *harness.Ctx) {
	type op struct {
		name  string
		token func(s *Scn) []byte
		fung  bool
		xfer  bool
		mk    func(s *Scn, dst []byte, att [][]byte) node.Call
	}
	ops := []op{
		{"T", func(s *Scn) []byte { return s.F1 }, true, true, func(s *Scn, d []byte, a [][]byte) node.Call { return s.Xfer("T", s.A, d, "f", a...) }},
		{"N", func(s *Scn) []byte { return s.SFT }, false, true, func(s *Scn, d []byte, a [][]byte) node.Call { return s.Xfer("N", s.A, d, "s", a...) }},
		{"Mf", func(s *Scn) []byte { return s.F1 }, true, true, func(s *Scn, d []byte, a [][]byte) node.Call { return s.Xfer("M", s.A, d, "f", a...) }},
		{"Ms", func(s *Scn) []byte { return s.SFT }, false, true, func(s *Scn, d []byte, a [][]byte) node.Call { return s.Xfer("M", s.A, d, "s", a...) }},
		{"Mgf", func(s *Scn) []byte { return s.F1 }, true, true, func(s *Scn, d []byte, a [][]byte) node.Call { return s.Xfer("M", s.A, d, "gf", a...) }},
		{"Mfs", func(s *Scn) []byte { return s.SFT }, false, true, func(s *Scn, d []byte, a [][]byte) node.Call { return s.Xfer("M", s.A, d, "fs", a...) }},
		{FBurn, func(s *Scn) []byte { return s.F1 }, true, false, func(s *Scn, d []byte, a [][]byte) node.Call {
			return node.Call{Func: FBurn, Caller: s.A, Recipient: gen.SysSC, Args: [][]byte{s.F1, gen.Big(3)}, Gas: gen.BigGas}
		}},
		{FLocalMint, func(s *Scn) []byte { return s.F1 }, true, false, func(s *Scn, d []byte, a [][]byte) node.Call {
			return gen.SelfCall(FLocalMint, s.A, gen.BigGas, s.F1, gen.Big(3))
		}},
		{FLocalBurn, func(s *Scn) []byte { return s.F1 }, true, false, func(s *Scn, d []byte, a [][]byte) node.Call {
			return gen.SelfCall(FLocalBurn, s.A, gen.BigGas, s.F1, gen.Big(3))
		}},
		{FNFTCreate, func(s *Scn) []byte { return s.SFT }, false, false, func(s *Scn, d []byte, a [][]byte) node.Call {
			return gen.SelfCall(FNFTCreate, s.A, gen.BigGas, s.SFT, gen.Big(2), []byte("n"), gen.Big(1), []byte("h"), []byte("a"), []byte("u"))
		}},
		{FNFTAddQty, func(s *Scn) []byte { return s.SFT }, false, false, func(s *Scn, d []byte, a [][]byte) node.Call {
			return gen.SelfCall(FNFTAddQty, s.A, gen.BigGas, s.SFT, gen.U64(1), gen.Big(3))
		}},
		{FNFTBurn, func(s *Scn) []byte { return s.SFT }, false, false, func(s *Scn, d []byte, a [][]byte) node.Call {
			return gen.SelfCall(FNFTBurn, s.A, gen.BigGas, s.SFT, gen.U64(1), gen.Big(1))
		}},
		{FNFTAddURI, func(s *Scn) []byte { return s.SFT }, false, false, func(s *Scn, d []byte, a [][]byte) node.Call {
			return gen.SelfCall(FNFTAddURI, s.A, gen.BigGas, s.SFT, gen.U64(1), []byte("u2"))
		}},
		{FNFTUpdAttr, func(s *Scn) []byte { return s.SFT }, false, false, func(s *Scn, d []byte, a [][]byte) node.Call {
			return gen.SelfCall(FNFTUpdAttr, s.A, gen.BigGas, s.SFT, gen.U64(1), []byte("at2"))
		}},
	}
	conds := []string{"actor-frozen", "dest-frozen", "paused-sender-shard", "paused-dest-shard", "none"}
	cts := []vmcommon.CallType{vmcommon.DirectCall, vmcommon.AsynchronousCall, vmcommon.AsynchronousCallBack, vmcommon.ESDTTransferAndExecute}
	i := 0
	for _, S := range []uint32{1, 2} {
		for _, o := range ops {
			for _, cond := range conds {
				for di := 0; di < 4; di++ {
					for _, ct := range cts {
						for ai, att := range attachedForms[:2] {
							if !o.xfer && (di > 0 || ai > 0) {
								continue
							}
							if (cond == "actor-frozen" || cond == "dest-frozen") && !o.fung {
								continue
							}
							if cond == "dest-frozen" && !o.xfer {
								continue
							}
							i++
							if !mine(c, i) {
								continue
							}
							s := NewScn(c.Rand("c04").Fork(uint64(i)), c.R, ScnOpts{Shards: S, Enabled: []string{"C04"}})
							u := s.U
							dst := [][]byte{s.Same, s.Other, s.KSame, s.KOther}[di]
							dstShard := u.ShardOf(dst)
							tok := o.token(s)
							if di%2 == 0 {
								giveDest(s, dst)
							}
							switch cond {
							case "actor-frozen":
								gen.Must(u.Freeze(s.A, tok), "freeze actor")
							case "dest-frozen":
								gen.Must(u.Freeze(dst, tok), "freeze dest")
							case "paused-sender-shard":
								gen.Must(u.Pause(0, tok), "pause")
							case "paused-dest-shard":
								if !o.xfer {
									continue
								}
								gen.Must(u.Pause(dstShard, tok), "pause")
							}
							call := o.mk(s, dst, att)
							call.CallType = ct
							l := u.N.Exec(call)
							expectBlockedSender := cond == "actor-frozen" || cond == "paused-sender-shard" || (dstShard == 0 && (cond == "dest-frozen" || cond == "paused-dest-shard"))
							if expectBlockedSender {
								s.M.C04blocked(l, cond)
							}
							for _, dl := range drain(u.N) {
								if dl.Msg != nil && !dl.Msg.IsRefund && (cond == "dest-frozen" || cond == "paused-dest-shard") {
									s.M.C04blocked(dl, cond)
								}
							}
							c.R.Eval(u.N.Seq())
							if i == 5 {
								sample(c, map[string]interface{}{"case": fmt.Sprintf("%s cond=%s dst%d ct=%d", o.name, cond, di, ct), "legs": s.M.History[len(s.M.History)-4:]})
							}
						}
					}
				}
			}
		}
	}
	// freeze -> attempts -> unfreeze restores; pause -> attempts -> unpause restores behaviour
	for k := 0; k < 12; k++ {
		i++
		if !mine(c, i) {
			continue
		}
		s := NewScn(c.Rand("c04r").Fork(uint64(k)), c.R, ScnOpts{Shards: 1 + uint32(k%2), Enabled: []string{"C04"}})
		u := s.U
		who := [][]byte{s.A, s.Same, s.Other}[k%3]
		if k%4 == 0 {
			gen.Must(u.Issue(who, s.F1, big.NewInt(int64(1+k))), "prior")
		}
		gen.Must(u.Freeze(who, s.F1), "freeze")
		u.N.Exec(s.Xfer("T", s.A, who, "f"))
		drain(u.N)
		u.N.Exec(gen.TransferCall(who, s.A, s.F1, big.NewInt(1), gen.BigGas))
		drain(u.N)
		gen.Must(u.UnFreeze(who, s.F1), "unfreeze")
		gen.Must(u.Pause(u.ShardOf(who), s.F1), "pause")
		s.M.C04blocked(u.N.Exec(gen.TransferCall(who, s.Same, s.F1, big.NewInt(1), gen.BigGas)), "paused")
		gen.Must(u.UnPause(u.ShardOf(who), s.F1), "unpause")
		if u.Balance(who, s.F1, 0).Sign() > 0 {
			l := u.N.Exec(gen.TransferCall(who, s.KSame, s.F1, big.NewInt(1), gen.BigGas, []byte("f")))
			if !l.OK {
				s.M.viol("C04", "unpause-not-restoring", "after unfreeze and unpause a plain transfer is still rejected: "+fmt.Sprint(l.Err), l)
			} else {
				c.R.Cover("C04/behaviour-restored")
			}
		}
		c.R.Eval(u.N.Seq())
	}
}

// ---------------------------------------------------------------------------------------------
// C05 directed: SaveKeyValue key grammar

func c05Keys(s *Scn) [][]byte {
	var keys [][]byte
	p := "ELROND"
	for n := 0; n <= 12; n++ {
		keys = append(keys, bytes.Repeat([]byte{'k'}, n))
		if n <= len(p) {
			keys = append(keys, []byte(p[:n]))
		} else {
			keys = append(keys, []byte(p+string(bytes.Repeat([]byte{'x'}, n-len(p)))))
		}
	}
	for pos := 0; pos < len(p); pos++ {
		b := []byte(p + "esdtFUNA")
		b[pos]++
		keys = append(keys, b)
		b2 := []byte(p)
		b2[pos] += 'a' - 'A'
		keys = append(keys, append(b2, []byte("esdt")...))
	}
	keys = append(keys, []byte("elrond"), []byte("Elrond"), []byte("ELROND"), []byte("ELRONDx"), []byte("xELROND"), []byte(" ELROND"), []byte("ELRON"), []byte("ELRONE"), []byte("ELROND\x00"),
		[]byte(node.KeyPrefix+string(s.F1)), []byte(node.KeyPrefix+string(s.SFT)+"\x01"), []byte(node.RolePrefix+string(s.F1)), []byte(node.NoncePrefix+string(s.SFT)),
		[]byte(node.KeyPrefix), []byte(node.KeyPrefix+"NEW-000000"), []byte("ELRONDroleesdtNEW"), []byte("ELRONDnonceNEW"))
	return keys
}

func c05Directed(c *harness.Ctx) {
	i := 0
	// flag operations on SEVERAL tokens and accounts in a row, in three consecutive worlds (one per
	// environment variant: copying trie, reference-keeping trie, merge-decoding marshaller): every
	// call writes only the entry it names
	if mine(c, 2) {
		for rep := 0; rep < 6; rep++ {
			s := NewScn(c.Rand("c05flags").Fork(uint64(rep)), c.R, ScnOpts{Shards: 1 + uint32(rep%2), Enabled: []string{"C05", "C04"}})
			u := s.U
			toks := [][]byte{s.F1, s.F2, s.SFT, s.NFT}
			for _, t := range toks {
				u.UnPause(0, t) // never paused: writes the "no flag" value
			}
			for _, a := range [][]byte{s.A, s.Same, s.KSame} {
				for _, t := range toks[:2] {
					u.UnFreeze(a, t)
				}
			}
			u.Pause(0, toks[1])
			u.Freeze(s.Same, s.F1)
			u.Pause(0, toks[3])
			u.UnPause(0, toks[1])
			u.Freeze(s.A, s.F2)
			u.UnFreeze(s.Same, s.F1)
			u.N.Exec(gen.TransferCall(s.A, s.Same, s.F1, big.NewInt(1), gen.BigGas))
			u.N.Exec(gen.NFTTransferCall(s.A, s.Same, s.SFT, 1, big.NewInt(1), gen.BigGas))
			drain(u.N)
			c.R.Cover("C05/flag-sequences")
			c.R.Eval(u.N.Seq())
		}
	}
	// values that coincide with what OTHER keys hold (or held before this call): every listed pair
	// is applied, whatever the neighbouring pairs are. Every arrangement of three keys (one stored
	// with X, one stored with Y, one new) x values drawn from {X, Y, new, empty}
	if mine(c, 3) {
		vals := [][]byte{[]byte("red"), []byte("blue"), []byte("new"), {}}
		keys3 := [][]byte{[]byte("colour"), []byte("paint"), []byte("fresh")}
		n := 0
		for perm := 0; perm < 6; perm++ {
			order := [][]int{{0, 1, 2}, {0, 2, 1}, {1, 0, 2}, {1, 2, 0}, {2, 0, 1}, {2, 1, 0}}[perm]
			for vcode := 0; vcode < 64; vcode++ {
				s := NewScn(c.Rand("c05co").Fork(uint64(perm*64+vcode)), c.R, ScnOpts{Shards: 1, Enabled: []string{"C05"}})
				gen.Must(s.U.N.Exec(node.Call{Func: FSaveKV, Caller: s.A, Recipient: s.A, Args: [][]byte{keys3[0], vals[0], keys3[1], vals[1]}, Gas: gen.BigGas}), "prep")
				var args [][]byte
				for j, ki := range order {
					args = append(args, keys3[ki], vals[(vcode>>(2*uint(j)))&3])
				}
				s.U.N.Exec(node.Call{Func: FSaveKV, Caller: s.A, Recipient: s.A, Args: args, Gas: gen.BigGas})
				n++
			}
		}
		c.R.CoverN("C05/savekv-coinciding-values", int64(n))
		c.R.Eval(n)
	}
	for _, S := range []uint32{1, 2} {
		s0 := NewScn(c.Rand("c05k"), c.R, ScnOpts{Shards: S})
		keys := c05Keys(s0)
		for ki, key := range keys {
			for vi := 0; vi < 3; vi++ {
				for ci := 0; ci < 5; ci++ {
					i++
					if !mine(c, i) {
						continue
					}
					s := NewScn(c.Rand("c05").Fork(uint64(i)), c.R, ScnOpts{Shards: S, Enabled: []string{"C05"}})
					u := s.U
					caller, rcv := s.A, s.A
					switch ci {
					case 1:
						caller, rcv = s.Same, s.A // other user writes into A
					case 2:
						caller, rcv = s.KSame, s.A // contract writes into A
					case 3:
						caller, rcv = s.KSame, s.KSame // contract writes to itself
					case 4:
						// an address of the contract range whose account is a freshly created empty one
						// (no code, no metadata yet): a contract address all the same
						caller, rcv = gen.ContractAddr(9, 0), gen.ContractAddr(9, 0)
					}
					// A already has plain keys
					gen.Must(u.N.Exec(node.Call{Func: FSaveKV, Caller: s.A, Recipient: s.A, Args: [][]byte{[]byte("plain"), []byte("v0"), []byte("kkk"), []byte("old")}, Gas: gen.BigGas}), "prep")
					val := []byte("value")
					switch vi {
					case 1:
						val = []byte{}
					case 2:
						val = u.W.Account(rcv).Peek(key) // unchanged value (may be empty)
					}
					args := [][]byte{key, val}
					switch ki % 4 {
					case 1:
						args = append([][]byte{[]byte("first"), []byte("1")}, args...)
					case 2:
						args = append(args, []byte("plain"), []byte("v1"), key, []byte("again"))
					case 3:
						args = append(args, []byte("last"), []byte{})
					}
					l := u.N.Exec(node.Call{Func: FSaveKV, Caller: caller, Recipient: rcv, Args: args, Gas: gen.BigGas})
					protected := false
					for j := 0; j < len(args); j += 2 {
						if bytes.HasPrefix(args[j], []byte("ELROND")) {
							protected = true
						}
					}
					if !l.OK {
						why := "other"
						switch {
						case ci != 0:
							why = "caller"
						case protected:
							why = "protected-key"
						}
						c.R.Cover("C05/savekv-rejected:" + why)
					} else if ci == 0 && !protected {
						c.R.Cover("C05/savekv-plain-accepted")
					}
					c.R.DistinctS("C05", fmt.Sprint(ki), fmt.Sprint(vi), fmt.Sprint(ci), fmt.Sprint(l.OK))
					c.R.Eval(u.N.Seq())
					if i == 11 {
						sample(c, map[string]interface{}{"case": fmt.Sprintf("key=%q value=%q caller-class=%d", key, val, ci), "leg": legString(l)})
					}
				}
			}
		}
	}
}

// ---------------------------------------------------------------------------------------------
// C07 histories

var c07SelfHandOver = true

func c07Histories(c *harness.Ctx) {
	nh := c.Scale(240, 4000)
	for h := 0; h < nh; h++ {
		if !mine(c, h) {
			continue
		}
		r := c.Rand("c07").Fork(uint64(h))
		S := 1 + uint32(r.Intn(3))
		s := NewScn(r, c.R, ScnOpts{Shards: S, Enabled: []string{"C07"}, NoHold: true})
		u := s.U
		holders := map[string][]byte{string(s.SFT): s.A, string(s.NFT): s.A}
		gen.Must(u.SetRoles(s.A, s.SFT, RoleCreate, RoleAddQty, RoleNFTBurn), "roles")
		gen.Must(u.SetRoles(s.A, s.NFT, RoleCreate, RoleNFTBurn), "roles")
		pendingMsg := map[string]*node.Message{}
		steps := 30 + r.Intn(30)
		for st := 0; st < steps; st++ {
			tok := s.SFT
			if r.Bool() {
				tok = s.NFT
			}
			cur := holders[string(tok)]
			// sometimes the read of the nonce counter fails during the next call: the call may
			// fail, but it must not succeed with a wrong counter
			u.W.Fault = nil
			if r.Chance(12) {
				u.W.Fault = &world.FaultPlan{FailAt: 1 + r.Intn(2), Match: func(kind string, key []byte) bool {
					return kind == world.KRetrieve && bytes.HasPrefix(key, []byte(node.NoncePrefix))
				}}
				c.R.Cover("C07/counter-read-fault-armed")
			} else if r.Chance(10) {
				// ... or the read of the role list, during a create or a hand-over (the system
				// contract's own SetRole / UnSetRole are left alone: a lost read there rewrites the
				// list, which is the fail-soft design and would only desynchronise the workload)
				u.W.Fault = &world.FaultPlan{FailAt: 1, Match: func(kind string, key []byte) bool {
					return kind == world.KRetrieve && bytes.HasPrefix(key, []byte(node.RolePrefix)) && (u.W.CurFunc == FHandOver || u.W.CurFunc == FNFTCreate)
				}}
				c.R.Cover("C07/role-read-fault-armed")
			}
			switch r.Intn(9) {
			case 0, 1, 2: // create by the holder
				q := int64(1)
				if bytes.Equal(tok, s.SFT) && s.M.S.HasRole(cur, tok, RoleAddQty) {
					q = int64(1 + r.Intn(5))
				}
				l := u.N.Exec(gen.SelfCall(FNFTCreate, cur, gen.BigGas, tok, gen.Big(q), []byte("n"), gen.Big(1), []byte("h"), []byte("a"), []byte("u")))
				if _, inflight := s.M.S.InFlightH[string(tok)]; inflight && !l.OK {
					c.R.Cover("C07/create-rejected-during-handover")
				}
			case 3: // create attempt by an old holder / stranger
				who := u.Pick(u.Actors)
				l := u.N.Exec(gen.SelfCall(FNFTCreate, who, gen.BigGas, tok, gen.Big(1), []byte("n"), gen.Big(1), []byte("h"), []byte("a"), []byte("u")))
				if !l.OK {
					c.R.Cover("C07/create-by-non-holder-rejected")
				}
				if _, inflight := s.M.S.InFlightH[string(tok)]; inflight && !l.OK {
					c.R.Cover("C07/create-rejected-during-handover")
				}
			case 4: // burn the latest
				if n := s.M.S.Counter[rkey{string(cur), string(tok)}]; n > 0 && s.M.S.HasRole(cur, tok, RoleNFTBurn) {
					u.N.Exec(gen.SelfCall(FNFTBurn, cur, gen.BigGas, tok, gen.U64(n), gen.Big(1)))
				}
			case 5: // transfer the latest away
				if n := s.M.S.Counter[rkey{string(cur), string(tok)}]; n > 0 {
					u.N.Exec(gen.NFTTransferCall(cur, u.Pick(u.Users), tok, n, big.NewInt(1), gen.BigGas))
				}
			case 6, 7: // hand-over
				if _, inflight := s.M.S.InFlightH[string(tok)]; inflight {
					continue
				}
				next := u.Pick(u.Actors)
				if bytes.Equal(next, cur) && (u.W.CopyOnLoad || !c07SelfHandOver) {
					continue
				}
				if bytes.Equal(next, cur) {
					c.R.Cover("C07/handover-to-the-holder-itself")
				}
				l := u.HandOver(cur, next, tok)
				if l.OK {
					holders[string(tok)] = next
					for _, e := range l.Emitted {
						if e.Kind == node.MsgContinuation {
							pendingMsg[string(tok)] = e
						}
					}
				}
			default: // deliver something (late delivery), sometimes twice back-to-back
				if len(u.N.Pool) > 0 {
					idx := r.Intn(len(u.N.Pool))
					m := u.N.Pool[idx]
					if m.Func == FHandOver && len(m.Args) == 2 && h%3 == 1 {
						// the counter in a fixed-width / zero-padded encoding (wider than 8 bytes too)
						m.Args[1] = append(make([]byte, 1+(st*7)%11), m.Args[1]...)
						m.Data = node.BuildData(m.Func, m.Args)
						c.R.Cover("C07/handover-counter-padded")
					}
					u.N.Deliver(idx)
					if m.Func == FHandOver && r.Chance(40) {
						l2 := u.N.DeliverMsg(m) // duplicate, back-to-back
						if l2 != nil && l2.OK {
							c.R.Cover("C07/duplicate-delivery")
						}
					}
				}
			}
		}
		u.W.Fault = nil
		drain(u.N)
		// after everything is delivered the holder can create and continues after the maximum
		for _, tok := range [][]byte{s.SFT, s.NFT} {
			l := u.N.Exec(gen.SelfCall(FNFTCreate, holders[string(tok)], gen.BigGas, tok, gen.Big(1), []byte("n"), gen.Big(1), []byte("h"), []byte("a"), []byte("u")))
			if !l.OK {
				s.M.viol("C07", "holder-cannot-create", "after all hand-overs were delivered the current holder cannot create: "+fmt.Sprint(l.Err), l)
			}
		}
		c.R.Eval(u.N.Seq())
		c.R.Distinct(u.W.Digest())
		if h == 0 {
			sample(c, map[string]interface{}{"history_tail": s.M.History[len(s.M.History)-10:]})
		}
	}
}

// ---------------------------------------------------------------------------------------------
// C08 routes

func c08Routes(c *harness.Ctx) {
	royalties := []*big.Int{big.NewInt(0), big.NewInt(1), big.NewInt(9999), big.NewInt(10000), big.NewInt(10001), new(big.Int).SetUint64(1<<32 - 1), new(big.Int).SetUint64(1 << 32), new(big.Int).SetUint64(1<<32 + 1), new(big.Int).SetUint64(1<<32 + 10001)}
	sizes := []int{0, 1, 17, 4096}
	nr := c.Scale(640, 6000)
	for h := 0; h < nr; h++ {
		if !mine(c, h) {
			continue
		}
		r := c.Rand("c08").Fork(uint64(h))
		S := 1 + uint32(r.Intn(3))
		s := NewScn(r, c.R, ScnOpts{Shards: S, Enabled: []string{"C08"}})
		u := s.U
		roy := royalties[h%len(royalties)]
		sz := func() int { return sizes[r.Intn(len(sizes))] }
		args := [][]byte{s.SFT, gen.Big(6), r.Bytes(sz()), roy.Bytes(), r.Bytes(sz()), r.Bytes(sz())}
		for k := 0; k < 1+r.Intn(6); k++ {
			args = append(args, r.Bytes(sz()%300))
		}
		l := u.N.Exec(gen.SelfCall(FNFTCreate, s.A, gen.BigGas, args...))
		if roy.Cmp(big.NewInt(10000)) > 0 && roy.IsUint64() && roy.Uint64() < 1<<32 {
			if !l.OK {
				c.R.Cover("C08/royalties-rejected")
			}
		}
		if !l.OK {
			continue
		}
		nonce := u64(l.Out.ReturnData[0])
		holder := s.A
		hops := 1 + r.Intn(6)
		for k := 0; k < hops; k++ {
			next := u.Pick(u.Actors)
			if bytes.Equal(next, holder) {
				continue
			}
			if bytes.Equal(holder, s.A) && r.Chance(40) {
				if r.Bool() {
					u.N.Exec(gen.SelfCall(FNFTAddURI, s.A, gen.BigGas, s.SFT, gen.U64(nonce), r.Bytes(r.Intn(40)), r.Bytes(r.Intn(3))))
				} else {
					u.N.Exec(gen.SelfCall(FNFTUpdAttr, s.A, gen.BigGas, s.SFT, gen.U64(nonce), r.Bytes(r.Intn(60))))
				}
			}
			q := big.NewInt(1)
			if r.Chance(30) {
				q = u.Balance(holder, s.SFT, nonce)
			}
			if q.Sign() == 0 {
				break
			}
			var call node.Call
			var att [][]byte
			if vmcommon.IsSmartContractAddress(next) {
				att = [][]byte{[]byte("take")}
			}
			if r.Bool() {
				call = gen.NFTTransferCall(holder, next, s.SFT, nonce, q, gen.BigGas, att...)
			} else {
				items := []gen.Item{{ID: s.SFT, Nonce: nonce, Qty: q}}
				if f := u.Balance(holder, s.F1, 0); f.Sign() > 0 && r.Bool() {
					items = append([]gen.Item{{ID: s.F1, Nonce: 0, Qty: big.NewInt(1)}}, items...)
				}
				call = gen.MultiCall(holder, next, items, gen.BigGas, att...)
			}
			tl := u.N.Exec(call)
			ok := tl.OK
			for _, dl := range drain(u.N) {
				if dl.Msg != nil && !dl.Msg.IsRefund && !dl.OK {
					ok = false
				}
			}
			if ok && u.Balance(next, s.SFT, nonce).Sign() > 0 && r.Chance(70) {
				holder = next
			}
		}
		c.R.Eval(u.N.Seq())
		if h == 0 {
			sample(c, map[string]interface{}{"route": s.M.History[len(s.M.History)-6:]})
		}
	}
	// a credit into an account holding a different hash under the same (token, nonce): rejected
	for k := 0; k < 56; k++ {
		if !mine(c, k) {
			continue
		}
		s := NewScn(c.Rand("c08h").Fork(uint64(k)), c.R, ScnOpts{Shards: 1 + uint32(k%2), Enabled: []string{"C08"}})
		u := s.U
		dst := [][]byte{s.Same, s.Other}[k%2]
		// seed the destination directly with an entry of the same key but another hash: unrelated,
		// absent, empty, a proper prefix of the real one, the real one plus a byte
		src := u.W.Account(s.A).Peek([]byte(node.StorageKey(s.SFT, 1)))
		tok, _ := decodeTok(src)
		real := append([]byte{}, tok.Meta.Hash...)
		switch k / 8 {
		case 0:
			tok.Meta.Hash = []byte("another-hash")
		case 1:
			tok.Meta.Hash = nil
		case 2:
			tok.Meta.Hash = []byte{}
		case 3:
			if len(real) < 2 {
				continue
			}
			tok.Meta.Hash = real[:len(real)-1]
		case 4:
			tok.Meta.Hash = append(real, 0)
		case 5:
			// the same letters in the other case (hashes are bytes, not text)
			tok.Meta.Hash = bytes.ToUpper(real)
		default:
			// both hashes binary: the real one is replaced in the sender's entry too, the
			// destination's differs from it only in bytes that are not valid UTF-8
			binHash := []byte{0x01, 0xde, 0xad, 0xbe, 0xef, 'x'}
			srcTok, _ := decodeTok(src)
			srcTok.Meta.Hash = binHash
			u.W.Account(s.A).Poke([]byte(node.StorageKey(s.SFT, 1)), encodeTok(srcTok))
			s.M.S.Meta[akey{string(s.A), node.StorageKey(s.SFT, 1)}] = srcTok.Meta.Clone()
			real = binHash
			tok.Meta.Hash = []byte{0x01, 0xde, 0xad, 0xbf, 0xee, 'x'}
		}
		if bytes.Equal(tok.Meta.Hash, real) {
			continue
		}
		tok.Value = big.NewInt(1)
		u.W.Account(dst).Poke([]byte(node.StorageKey(s.SFT, 1)), encodeTok(tok))
		var call node.Call
		if k/2%2 == 0 {
			call = s.Xfer("N", s.A, dst, "s")
		} else {
			call = s.Xfer("M", s.A, dst, "fs")
		}
		l := u.N.Exec(call)
		rejected := !l.OK
		refusing := l
		for _, dl := range drain(u.N) {
			if dl.Msg != nil && !dl.Msg.IsRefund {
				rejected = !dl.OK
				refusing = dl
			}
		}
		if rejected {
			// the refusal leaves the holding it protects untouched, also in what the call had
			// written when it returned (before the node's roll-back)
			for _, ch := range refusing.RawDiff {
				if ch.Addr == string(dst) && ch.Key == node.StorageKey(s.SFT, 1) {
					s.M.viol("C08", "wrong-hash-refused-after-overwrite:"+call.Func, "the transfer into an account holding a different hash was refused, but the holding had already been overwritten when the call returned", refusing)
				}
			}
			c.R.Cover("C08/wrong-hash-rejected")
		} else {
			s.M.viol("C08", "wrong-hash-accepted:"+call.Func, "a transfer into an account holding a different hash under the same token and nonce was accepted", l)
		}
		c.R.Eval(u.N.Seq())
	}
	// the same through a return-after-error leg: the flag exempts from freeze and pause, not from
	// the hash comparison
	for k := 0; k < 8; k++ {
		if !mine(c, k) {
			continue
		}
		s := NewScn(c.Rand("c08r").Fork(uint64(k)), c.R, ScnOpts{Shards: 2, Enabled: []string{"C08"}})
		u := s.U
		var call node.Call
		switch k % 4 {
		case 0:
			call = s.Xfer("N", s.A, s.NOther, "s")
		case 1:
			call = s.Xfer("M", s.A, s.NOther, "s")
		case 2:
			call = s.Xfer("M", s.A, s.NOther, "fs")
		default:
			call = s.Xfer("M", s.A, s.NOther, "st")
		}
		if k >= 4 {
			call.CallType = vmcommon.AsynchronousCall
		}
		gen.Must(u.N.Exec(call), "send to a non-payable contract")
		if len(u.N.Pool) != 1 {
			continue
		}
		dl := u.N.Deliver(0) // rejected: not payable -> refund in flight
		if dl.OK || len(u.N.Pool) != 1 {
			continue
		}
		// meanwhile the sender's own entry is replaced by one with another hash (seeded directly)
		key := []byte(node.StorageKey(s.SFT, 1))
		tok, _ := decodeTok(u.W.Account(s.A).Peek(key))
		tok.Meta.Hash = []byte("another-hash")
		u.W.Account(s.A).Poke(key, encodeTok(tok))
		s.M.S.Meta[akey{string(s.A), string(key)}] = tok.Meta.Clone()
		rl := u.N.Deliver(0)
		if !rl.OK {
			c.R.Cover("C08/wrong-hash-rejected")
			c.R.Cover("C08/wrong-hash-refund-rejected")
		} else {
			s.M.viol("C08", "wrong-hash-accepted-on-refund:"+call.Func, "a return-after-error transfer into an account holding a different hash under the same token and nonce was accepted", rl)
		}
		c.R.Eval(u.N.Seq())
	}
}

func decodeTok(b []byte) (*refcodec.Token, error) { return refcodec.DecodeToken(b) }
func encodeTok(t *refcodec.Token) []byte          { return refcodec.EncodeToken(t) }

// ---------------------------------------------------------------------------------------------
// C09 product

func c09Product(c *harness.Ctx) {
	forms := []xferForm{{"T", "f"}, {"N", "s"}, {"N", "n"}, {"M", "f"}, {"M", "fg"}, {"M", "s"}, {"M", "sn"}, {"M", "fs"}, {"M", "fsn"}, {"M", "sf"}}
	extras := [][][]byte{nil, {[]byte("fn")}, {[]byte("fn"), []byte("arg")}}
	cts := []vmcommon.CallType{vmcommon.DirectCall, vmcommon.AsynchronousCall, vmcommon.AsynchronousCallBack, vmcommon.ESDTTransferAndExecute}
	i := 0
	for _, S := range []uint32{1, 2} {
		for _, f := range forms {
			for _, ans := range []int{world.PayYes, world.PayNo, world.PayErr} {
				for _, ct := range cts {
					for ci := 0; ci < 2; ci++ { // caller: user, contract
						for _, ex := range extras {
							for di := 0; di < 4; di++ {
								i++
								if !mine(c, i) {
									continue
								}
								s := NewScn(c.Rand("c09").Fork(uint64(i)), c.R, ScnOpts{Shards: S, Enabled: []string{"C09"}})
								u := s.U
								from := s.A
								if ci == 1 {
									// a contract as sender: fund it like A
									from = s.KSame
									s.Fund(from)
								}
								dst := [][]byte{s.Same, s.Other, s.NSame, s.NOther}[di]
								u.W.Payable[string(dst)] = ans
								call := s.Xfer(f.Fn, from, dst, f.Pattern, ex...)
								call.CallType = ct
								l := u.N.Exec(call)
								// the same message delivered on behalf of ANOTHER metachain contract (only
								// the ESDT system contract is exempt from the payability query)
								for _, m := range u.N.Pool {
									m2 := *m
									m2.From = otherMetaSC
									u.N.DeliverMsg(&m2)
									// ... and flagged as a refund (return-after-error): still not an
									// exemption from the payability query
									m3 := *m
									m3.RetAfterErr = true
									u.N.DeliverMsg(&m3)
									// ... and with zero-quantity NFT entries in front of / instead of the
									// real ones (only a crafted message can carry them)
									for _, mz := range zeroQtyVariants(m) {
										u.N.DeliverMsg(mz)
									}
								}
								verify := ct != vmcommon.AsynchronousCallBack && ct != vmcommon.ESDTTransferAndExecute && len(ex) == 0
								if verify && ans != world.PayYes && u.ShardOf(dst) == 0 {
									s.M.C09rejected(l, "sender-leg")
								}
								for _, dl := range drain(u.N) {
									if dl.Msg != nil && !dl.Msg.IsRefund && verify && ans != world.PayYes {
										s.M.C09rejected(dl, "dest-leg")
									}
								}
								c.R.Eval(u.N.Seq())
								if i == 3 {
									sample(c, map[string]interface{}{"case": fmt.Sprintf("%s oracle=%d ct=%d caller=%d extra=%d dst=%d", f, ans, ct, ci, len(ex), di), "legs": s.M.History[len(s.M.History)-3:]})
								}
							}
						}
					}
				}
			}
		}
		// the oracle's answer changes between two transfers to the same destination (a contract
		// upgraded to non-payable, SetPayableHandler with another oracle): the answer at the time of
		// EACH credit counts
		for _, f := range forms {
			for di := 0; di < 4; di++ {
				for _, second := range []int{world.PayNo, world.PayErr} {
					i++
					if !mine(c, i) {
						continue
					}
					s := NewScn(c.Rand("c09flip").Fork(uint64(i)), c.R, ScnOpts{Shards: S, Enabled: []string{"C09"}})
					u := s.U
					dst := [][]byte{s.Same, s.Other, s.NSame, s.NOther}[di]
					for round, ans := range []int{world.PayYes, second, world.PayYes, second} {
						u.W.Payable[string(dst)] = ans
						if round == 3 {
							// the second oracle is installed as a new handler object
							for _, sh := range u.W.Shards {
								_ = builtInFunctions.SetPayableHandler(sh.Container, &world.PayableOracle{W: u.W})
							}
						}
						l := u.N.Exec(s.Xfer(f.Fn, s.A, dst, f.Pattern))
						if ans != world.PayYes && u.ShardOf(dst) == 0 {
							s.M.C09rejected(l, "oracle-flip")
						}
						for _, dl := range drain(u.N) {
							if dl.Msg != nil && !dl.Msg.IsRefund && ans != world.PayYes {
								s.M.C09rejected(dl, "oracle-flip")
							}
						}
					}
					c.R.Eval(u.N.Seq())
				}
			}
		}
		// multi-transfers whose entry count does not fit a byte, plain, to non-payable contracts
		for _, nEntries := range []int{256, 257, 300} {
			i++
			if !mine(c, i) {
				continue
			}
			s := NewScn(c.Rand("c09big").Fork(uint64(nEntries)), c.R, ScnOpts{Shards: S, Enabled: []string{"C09"}})
			var items []gen.Item
			for k := 0; k < nEntries; k++ {
				items = append(items, gen.Item{ID: s.F1, Nonce: 0, Qty: big.NewInt(1)})
			}
			items[1] = gen.Item{ID: s.SFT, Nonce: 1, Qty: big.NewInt(1)}
			for _, dst := range [][]byte{s.NSame, s.NOther} {
				s.M.C09rejected(s.U.N.Exec(gen.MultiCall(s.A, dst, items, gen.BigGas)), "big-multi")
				for _, dl := range drain(s.U.N) {
					if dl.Msg != nil && !dl.Msg.IsRefund {
						s.M.C09rejected(dl, "big-multi")
					}
				}
			}
			c.R.Eval(s.U.N.Seq())
		}
		// system contract as the origin: exempt
		for _, ans := range []int{world.PayNo, world.PayErr} {
			i++
			if !mine(c, i) {
				continue
			}
			s := NewScn(c.Rand("c09s").Fork(uint64(i)), c.R, ScnOpts{Shards: S, Enabled: []string{"C09"}})
			s.U.W.Payable[string(s.NSame)] = ans
			s.U.Issue(s.NSame, s.F1, big.NewInt(3))
			c.R.Eval(s.U.N.Seq())
		}
		// destinations that must be rejected whatever the oracle says
		i++
		if mine(c, i) {
			s := NewScn(c.Rand("c09d").Fork(uint64(i)), c.R, ScnOpts{Shards: S, Enabled: []string{"C09"}})
			u := s.U
			meta := append([]byte{}, gen.SysSC...)
			meta[30] = 7
			short := s.Same[:31]
			long := append(append([]byte{}, s.Same...), 0)
			for _, f := range forms {
				for _, d := range [][]byte{gen.SysSC, meta, s.A, short, long, {}} {
					for _, ex := range extras {
						if f.Fn == "T" && (bytes.Equal(d, s.A) || len(d) != 32) {
							continue // ESDTTransfer carries the destination as the transaction's recipient
						}
						l := u.N.Exec(s.Xfer(f.Fn, s.A, d, f.Pattern, ex...))
						s.M.C09rejected(l, "bad-destination")
						drain(u.N)
					}
				}
			}
			c.R.Eval(u.N.Seq())
		}
	}
}

// zeroQtyVariants: crafted variants of an NFT / multi continuation message in which NFT entries
// carry quantity zero (prepended to the real entries, or replacing the first one).
func zeroQtyVariants(m *node.Message) []*node.Message {
	zero := func(payload []byte) []byte {
		t, err := refcodec.DecodeToken(payload)
		if err != nil || t.Meta == nil {
			return nil
		}
		t.Value, t.HasValue = big.NewInt(0), true
		return refcodec.EncodeToken(t)
	}
	var out []*node.Message
	switch m.Func {
	case FMulti:
		if len(m.Args) < 4 {
			return nil
		}
		k := int(u64(m.Args[0]))
		if len(m.Args) < 1+3*k {
			return nil
		}
		for e := 0; e < k; e++ {
			if u64(m.Args[2+3*e]) == 0 {
				continue
			}
			z := zero(m.Args[3+3*e])
			if z == nil {
				continue
			}
			// (a) the zero-quantity entry in front of all real entries
			a := *m
			a.Args = append([][]byte{big.NewInt(int64(k + 1)).Bytes(), m.Args[1+3*e], m.Args[2+3*e], z}, m.Args[1:]...)
			out = append(out, &a)
			// (b) replacing entry e
			b := *m
			b.Args = append([][]byte{}, m.Args...)
			b.Args[3+3*e] = z
			out = append(out, &b)
			break
		}
		// (c) a fungible zero entry in front
		cc := *m
		cc.Args = append([][]byte{big.NewInt(int64(k + 1)).Bytes(), m.Args[1], {}, {}}, m.Args[1:]...)
		out = append(out, &cc)
	case FNFTXfer:
		if len(m.Args) >= 4 {
			if z := zero(m.Args[3]); z != nil {
				b := *m
				b.Args = append([][]byte{}, m.Args...)
				b.Args[3] = z
				out = append(out, &b)
			}
		}
	}
	return out
}

// otherMetaSC: a metachain system contract that is not the ESDT system contract.
var otherMetaSC = func() []byte {
	a := append([]byte{}, gen.SysSC...)
	a[29] = 4
	return a
}()

// c09MetaNode: the executing node is the metachain (SelfId() == MetachainShardId): a destination
// that maps to the metachain is then "in shard", and must be rejected all the same.
func c09MetaNode(c *harness.Ctx) {
	w, err := world.New(world.Config{NumShards: 1, MetaSelf: true, DNS: [][]byte{gen.UserAddr(9, 0)}})
	if err != nil {
		return
	}
	w.ConfirmEpoch(0)
	n := node.New(w)
	m := NewMon(c.R, 1, "C09")
	m.Attach(n)
	m1 := append([]byte{}, gen.SysSC...)
	m1[29] = 9
	m2 := append([]byte{}, gen.SysSC...)
	m2[29] = 7
	tokF, tokS := []byte("FUNA-a1b2c3"), []byte("SFTA-112233")
	snd := w.Shards[0].Get(m1)
	snd.Poke([]byte(node.StorageKey(tokF, 0)), refcodec.EncodeToken(&refcodec.Token{Value: big.NewInt(100)}))
	snd.Poke([]byte(node.StorageKey(tokS, 1)), refcodec.EncodeToken(&refcodec.Token{Type: 1, Value: big.NewInt(5), Meta: &refcodec.MetaData{Nonce: 1, Name: []byte("n"), Hash: []byte("h")}}))
	for _, dst := range [][]byte{gen.SysSC, m2} {
		for _, ex := range [][][]byte{nil, {[]byte("fn")}} {
			calls := []node.Call{
				gen.NFTTransferCall(m1, dst, tokS, 1, big.NewInt(1), gen.BigGas, ex...),
				gen.MultiCall(m1, dst, []gen.Item{{ID: tokF, Nonce: 0, Qty: big.NewInt(1)}}, gen.BigGas, ex...),
				gen.MultiCall(m1, dst, []gen.Item{{ID: tokS, Nonce: 1, Qty: big.NewInt(1)}, {ID: tokF, Nonce: 0, Qty: big.NewInt(1)}}, gen.BigGas, ex...),
				gen.TransferCall(m1, dst, tokF, big.NewInt(1), gen.BigGas, ex...),
			}
			// the arrival leg of an ESDTTransfer addressed to a metachain address, executed by the
			// metachain node itself (no sender account): refused like the sender leg
			if dl := n.ExecAt(0, gen.TransferCall(gen.UserAddr(3, 0), dst, tokF, big.NewInt(1), gen.BigGas, ex...)); dl != nil {
				if dl.OK {
					m.viol("C09", "metachain-destination:ESDTTransfer:dst", "the arrival leg of an ESDTTransfer addressed to the metachain succeeded on the metachain node", dl)
				}
				m.C09rejected(dl, "metachain-node-arrival")
			}
			for _, call := range calls {
				l := n.ExecSenderAt(0, call, true)
				m.C09rejected(l, "metachain-node")
			}
		}
	}
	c.R.Eval(n.Seq())
}

// ---------------------------------------------------------------------------------------------
// C10 extra: non-transfer emitters

func c10Extra(c *harness.Ctx) {
	for i, S := range []uint32{1, 2, 3} {
		if !mine(c, i) {
			continue
		}
		for k := 0; k < 6; k++ {
			s := NewScn(c.Rand("c10x").Fork(uint64(k)), c.R, ScnOpts{Shards: S, Enabled: []string{"C10"}})
			u := s.U
			// hand-over with counters 0, small, multi-byte
			if k > 0 {
				a := u.W.Account(s.A)
				v := []uint64{0, 1, 255, 256, 1 << 40, 1<<63 + 5}[k]
				a.Poke([]byte(node.NoncePrefix+string(s.NFT)), gen.U64(v))
				s.M.S.Counter[rkey{string(s.A), string(s.NFT)}] = v
			}
			u.HandOver(s.A, s.Other, s.NFT)
			drain(u.N)
			u.HandOver(s.A, s.Same, s.SFT)
			// SetUserName across shards; names with odd bytes
			u.N.Exec(node.Call{Func: FSetName, Caller: u.DNS, Recipient: s.A, Args: [][]byte{[]byte("n@me\x00")}, Gas: gen.BigGas, GasLocked: 2})
			u.N.Exec(node.Call{Func: FSetName, Caller: u.DNS, Recipient: s.Other, Args: [][]byte{{}}, Gas: gen.BigGas})
			drain(u.N)
			// ESDTBurn from a contract
			gen.Must(u.Issue(s.KSame, s.F1, big.NewInt(100)), "fund")
			u.N.Exec(node.Call{Func: FBurn, Caller: s.KSame, Recipient: gen.SysSC, Args: [][]byte{s.F1, {0, 0, 5}}, Gas: gen.BigGas})
			// transfers from a contract, numbers with leading zeros and multi-word values
			u.N.Exec(node.Call{Func: FTransfer, Caller: s.KSame, Recipient: s.Other, Args: [][]byte{s.F1, {0, 0, 1}}, Gas: gen.BigGas, CallType: vmcommon.AsynchronousCall})
			u.N.Exec(node.Call{Func: FTransfer, Caller: s.KSame, Recipient: s.KOther, Args: [][]byte{s.F1, {0, 2}, []byte("cb"), {}, {0}}, Gas: gen.BigGas, CallType: vmcommon.AsynchronousCall})
			u.N.Exec(node.Call{Func: FNFTXfer, Caller: s.A, Recipient: s.A, Args: [][]byte{s.SFT, {0, 0, 1}, {0, 2}, s.KOther, []byte("f"), {}, {}}, Gas: gen.BigGas})
			u.N.Exec(node.Call{Func: FMulti, Caller: s.A, Recipient: s.A, Args: [][]byte{s.Other, {0, 2}, s.F2, {}, gen.Pow2(64).Bytes(), s.SFT, {0, 1}, {0, 0, 1}}, Gas: gen.BigGas})
			drain(u.N)
			c.R.Eval(u.N.Seq())
		}
		// NFTs with nonces around the 8-bit, 32-bit and 63-bit boundaries, sent every way
		for k, ctr := range []uint64{254, 1<<32 - 2, 1<<63 - 2, 1<<63 + 4, ^uint64(0) - 3} {
			s := NewScn(c.Rand("c10n").Fork(uint64(k)), c.R, ScnOpts{Shards: S, Enabled: []string{"C10"}})
			u := s.U
			seedCounter(s, s.A, s.SFT, ctr)
			for j := 0; j < 2; j++ {
				l := u.Create(s.A, s.SFT, 9, "big-nonce", "h", "a", 5, "u")
				if !l.OK {
					continue
				}
				n := ctr + uint64(j) + 1
				for _, dst := range [][]byte{s.Other, s.KOther, s.Same, s.KSame} {
					u.N.Exec(gen.NFTTransferCall(s.A, dst, s.SFT, n, big.NewInt(1), gen.BigGas, attachedFor(dst)...))
					u.N.Exec(gen.MultiCall(s.A, dst, []gen.Item{{ID: s.F1, Nonce: 0, Qty: big.NewInt(1)}, {ID: s.SFT, Nonce: n, Qty: big.NewInt(1)}}, gen.BigGas, attachedFor(dst)...))
					drain(u.N)
				}
			}
			c.R.Eval(u.N.Seq())
		}
	}
}

// hugeNonceOps: every NFT operation on nonces around the 8-, 32-, 63- and 64-bit boundaries
// (counters seeded directly, storage and shadow alike).
func hugeNonceOps(c *harness.Ctx, enabled []string) {
	// what long use grows into (growth.go): URI lists / attributes, 520 creates, ten-entry role lists
	for v := 0; v < 3; v++ {
		for _, S := range []uint32{1, 2} {
			if mine(c, 3+v*2+int(S)) {
				growthHistory(c, v, S, enabled...)
			}
		}
	}
	for k, ctr := range []uint64{254, 65534, 1<<32 - 2, 1<<63 - 2, 1<<63 + 4, ^uint64(0) - 5} {
		if !mine(c, k) {
			continue
		}
		for _, S := range []uint32{1, 2} {
			s := NewScn(c.Rand("hugenonce").Fork(uint64(k)), c.R, ScnOpts{Shards: S, Enabled: enabled})
			u := s.U
			seedCounter(s, s.A, s.SFT, ctr)
			for j := 0; j < 3; j++ {
				l := u.Create(s.A, s.SFT, 9, "big-nonce", "h", "attrs", 5, "u")
				if !l.OK {
					continue
				}
				n := ctr + uint64(j) + 1
				u.N.Exec(gen.SelfCall(FNFTAddQty, s.A, gen.BigGas, s.SFT, gen.U64(n), gen.Big(3)))
				u.N.Exec(gen.SelfCall(FNFTAddURI, s.A, gen.BigGas, s.SFT, gen.U64(n), []byte("u2")))
				u.N.Exec(gen.SelfCall(FNFTUpdAttr, s.A, gen.BigGas, s.SFT, gen.U64(n), []byte("attrs-2")))
				for _, dst := range [][]byte{s.Other, s.KOther, s.Same, s.KSame} {
					u.N.Exec(gen.NFTTransferCall(s.A, dst, s.SFT, n, big.NewInt(1), gen.BigGas, attachedFor(dst)...))
					u.N.Exec(gen.MultiCall(s.A, dst, []gen.Item{{ID: s.F1, Nonce: 0, Qty: big.NewInt(1)}, {ID: s.SFT, Nonce: n, Qty: big.NewInt(1)}, {ID: s.SFT, Nonce: 1, Qty: big.NewInt(1)}}, gen.BigGas, attachedFor(dst)...))
					drain(u.N)
				}
				u.N.Exec(gen.NFTTransferCall(s.Same, s.A, s.SFT, n, big.NewInt(1), gen.BigGas))
				u.N.Exec(gen.SelfCall(FNFTBurn, s.A, gen.BigGas, s.SFT, gen.U64(n), gen.Big(2)))
				drain(u.N)
			}
			// hand the role (and the huge counter) over and create on
			u.HandOver(s.A, s.Other, s.SFT)
			drain(u.N)
			u.Create(s.Other, s.SFT, 1, "after-handover", "h", "", 0, "u")
			if s.M.Enabled["C01"] {
				s.M.conservation(u.N, &node.Leg{Call: node.Call{Func: "end"}, OK: true}, true)
			}
			if s.M.Enabled["C15"] {
				s.M.C15(u.N, &node.Leg{Call: node.Call{Func: "end"}, OK: true}, true)
			}
			c.R.Eval(u.N.Seq())
		}
	}
}

func attachedFor(dst []byte) [][]byte {
	if vmcommon.IsSmartContractAddress(dst) {
		return [][]byte{[]byte("take"), {}}
	}
	return nil
}

// seedCounter sets the nonce counter of a creator directly (storage and shadow), so that nonces
// far from 1 are reachable without 2^k creates.
func seedCounter(s *Scn, acc, tok []byte, v uint64) {
	s.U.W.Account(acc).Poke([]byte(node.NoncePrefix+string(tok)), gen.U64(v))
	s.M.S.Counter[rkey{string(acc), string(tok)}] = v
	if v > s.M.S.MaxIssued[string(tok)] {
		s.M.S.MaxIssued[string(tok)] = v
	}
}
