//go:build verif

package props

import (
	"bytes"
	"fmt"

	vmcommon "github.com/ElrondNetwork/elrond-vm-common"
	"github.com/ElrondNetwork/elrond-vm-common/builtInFunctions"
)

const hooksEnabled = true

// prefixState is the first observation of every byte-slice field of a container.
type prefixState map[string]builtInFunctions.VerifByteField

func observePrefixes(c vmcommon.BuiltInFunctionContainer) prefixState {
	st := prefixState{}
	for _, f := range builtInFunctions.VerifKeyPrefixes(c) {
		st[f.Owner+"."+f.Field] = f
	}
	return st
}

// comparePrefixes reports the first field whose visible content, length, capacity or spare
// backing memory changed since the first observation (a write into shared prefix memory).
func comparePrefixes(first prefixState, c vmcommon.BuiltInFunctionContainer) string {
	for _, f := range builtInFunctions.VerifKeyPrefixes(c) {
		o, ok := first[f.Owner+"."+f.Field]
		if !ok {
			continue
		}
		if f.Len != o.Len || f.Cap != o.Cap {
			return fmt.Sprintf("%s.%s: len/cap changed %d/%d -> %d/%d", f.Owner, f.Field, o.Len, o.Cap, f.Len, f.Cap)
		}
		if !bytes.Equal(f.Backing[:f.Len], o.Backing[:o.Len]) {
			return fmt.Sprintf("%s.%s: content changed %q -> %q", f.Owner, f.Field, o.Backing[:o.Len], f.Backing[:f.Len])
		}
		if !bytes.Equal(f.Backing, o.Backing) {
			return fmt.Sprintf("%s.%s: spare capacity of the shared backing array was written (len %d cap %d): %q -> %q", f.Owner, f.Field, f.Len, f.Cap, o.Backing[o.Len:], f.Backing[f.Len:])
		}
	}
	return ""
}

func prefixCount(first prefixState) int { return len(first) }
