package props

import (
	"fmt"
	"math/big"

	vmcommon "github.com/ElrondNetwork/elrond-vm-common"
	"verif/internal/gen"
	"verif/internal/harness"
	"verif/internal/node"
)

// Scn is a small directed scenario world: a sender A that holds every token kind and every role,
// destinations of every kind on the same and on another shard.
type Scn struct {
	U                *gen.Universe
	M                *Mon
	R                *harness.Rand
	A                []byte // sender: user on shard 0, holds F1, F2, SFT#1 (qty 10), NFT#1, all roles for SFT/NFT, mint/burn for F1
	Same             []byte // user on A's shard
	Other            []byte // user on another shard (== Same when there is one shard)
	KSame            []byte // payable contract on A's shard
	KOther           []byte // payable contract on another shard
	NSame            []byte // non-payable contract on A's shard
	NOther           []byte // non-payable contract on another shard
	F1, F2, SFT, NFT []byte
}

type ScnOpts struct {
	Shards  uint32
	GasMap  map[string]map[string]uint64
	NoHold  bool // do not give A anything
	Enabled []string
	// LateActivation: the gated functions' activation epoch is 5 and no epoch is confirmed at
	// construction (they start inactive).
	LateActivation bool
	// PreCreate: schedule changes delivered between factory construction and container creation.
	PreCreate []map[string]map[string]uint64
}

func NewScn(r *harness.Rand, rep *harness.Reporter, o ScnOpts) *Scn {
	if o.Shards == 0 {
		o.Shards = 2
	}
	uo := gen.UniOpts{Shards: o.Shards, Users: 6, Contracts: 0, GasMap: o.GasMap, NameChange: true, PreCreate: o.PreCreate}
	if o.LateActivation {
		uo.Activation, uo.NoConfirm = 5, true
	}
	u, err := gen.NewUniverse(r, uo)
	if err != nil {
		panic(err)
	}
	s := &Scn{U: u, R: r}
	S := byte(o.Shards)
	other := byte(1 % S)
	s.A = gen.UserAddr(0, 0)
	s.Same = gen.UserAddr(1, 0)
	s.Other = gen.UserAddr(2, other)
	s.KSame = gen.ContractAddr(0, 0)
	s.KOther = gen.ContractAddr(1, other)
	s.NSame = gen.ContractAddr(2, 0)
	s.NOther = gen.ContractAddr(3, other)
	u.Users = [][]byte{s.A, s.Same, s.Other}
	u.Contracts = [][]byte{s.KSame, s.KOther, s.NSame, s.NOther}
	u.Actors = append(append([][]byte{}, u.Users...), u.Contracts...)
	for i, c := range u.Contracts {
		a := u.W.Account(c)
		md := vmcommon.CodeMetadata{Payable: i < 2, Readable: true}
		a.CodeMeta = md.ToBytes()
		a.Owner = append([]byte{}, s.A...)
		a.DevReward = big.NewInt(777)
	}
	s.F1, s.F2, s.SFT, s.NFT = u.Tokens[0].ID, u.Tokens[1].ID, u.Tokens[2].ID, u.Tokens[3].ID
	s.M = NewMon(rep, o.Shards, o.Enabled...)
	for _, t := range u.Tokens {
		s.M.Registered = append(s.M.Registered, t.ID)
	}
	s.M.Attach(u.N)
	if !o.NoHold {
		s.Fund(s.A)
	}
	return s
}

// Fund gives an account the standard holdings and roles, through built-in calls.
func (s *Scn) Fund(a []byte) {
	u := s.U
	gen.Must(u.Issue(a, s.F1, big.NewInt(1000)), "issue F1")
	gen.Must(u.Issue(a, s.F2, new(big.Int).Add(gen.Pow2(70), big.NewInt(5))), "issue F2")
	gen.Must(u.SetRoles(a, s.F1, RoleMint, RoleBurn), "roles F1")
	gen.Must(u.SetRoles(a, s.SFT, RoleCreate, RoleAddQty, RoleNFTBurn, RoleAddURI, RoleUpdAttr), "roles SFT")
	gen.Must(u.SetRoles(a, s.NFT, RoleCreate, RoleNFTBurn, RoleAddURI, RoleUpdAttr), "roles NFT")
	gen.Must(u.Create(a, s.SFT, 10, "sft-one", "hash-sft-1", "attrs", 250, "uri-a", "uri-b"), "create SFT")
	gen.Must(u.Create(a, s.NFT, 1, "nft-one", "hash-nft-1", "a", 0, "uri"), "create NFT")
	gen.Must(u.Create(a, s.SFT, 4, "sft-two", "hash-sft-2", "", 10000, ""), "create SFT 2")
}

// Items builds the token list for a pattern: f = F1, g = F2, s = SFT#1, n = NFT#1, t = SFT#2; an
// upper-case letter asks for the whole balance.
func (s *Scn) Items(from []byte, pattern string) []gen.Item {
	var items []gen.Item
	for _, ch := range pattern {
		var it gen.Item
		switch ch {
		case 'f', 'F':
			it = gen.Item{ID: s.F1, Nonce: 0, Qty: big.NewInt(10)}
		case 'g', 'G':
			it = gen.Item{ID: s.F2, Nonce: 0, Qty: gen.Pow2(64)}
		case 's', 'S':
			it = gen.Item{ID: s.SFT, Nonce: 1, Qty: big.NewInt(3)}
		case 't', 'T':
			it = gen.Item{ID: s.SFT, Nonce: 2, Qty: big.NewInt(1)}
		case 'n', 'N':
			it = gen.Item{ID: s.NFT, Nonce: 1, Qty: big.NewInt(1)}
		}
		if ch >= 'A' && ch <= 'Z' {
			it.Qty = s.U.Balance(from, it.ID, it.Nonce)
		}
		items = append(items, it)
	}
	return items
}

// Xfer builds a transfer call: fn is "T" (ESDTTransfer), "N" (ESDTNFTTransfer) or "M" (multi).
func (s *Scn) Xfer(fn string, from, to []byte, pattern string, extra ...[]byte) node.Call {
	items := s.Items(from, pattern)
	switch fn {
	case "T":
		return gen.TransferCall(from, to, items[0].ID, items[0].Qty, gen.BigGas, extra...)
	case "N":
		return gen.NFTTransferCall(from, to, items[0].ID, items[0].Nonce, items[0].Qty, gen.BigGas, extra...)
	default:
		return gen.MultiCall(from, to, items, gen.BigGas, extra...)
	}
}

type xferForm struct {
	Fn      string
	Pattern string
}

// allForms: the transfer forms of the directed matrices.
var allForms = []xferForm{
	{"T", "f"}, {"T", "g"}, {"T", "F"},
	{"N", "s"}, {"N", "n"}, {"N", "S"}, {"N", "t"},
	{"M", "f"}, {"M", "s"}, {"M", "n"}, {"M", "fg"}, {"M", "ff"}, {"M", "sn"}, {"M", "fs"}, {"M", "fsn"}, {"M", "gst"}, {"M", "ss"}, {"M", "fgsnt"}, {"M", "F"}, {"M", "S"}, {"M", "fN"},
}

var attachedForms = [][][]byte{nil, {[]byte("doWork")}, {[]byte("accept"), {}, {0, 7}, []byte("argument-3")}}

func (f xferForm) String() string { return fmt.Sprintf("%s[%s]", f.Fn, f.Pattern) }
