package props

import (
	"fmt"
	"math/big"

	"verif/internal/gen"
	"verif/internal/harness"
	"verif/internal/node"
)

// Growth histories: what long or heavy use reaches and fresh worlds never show - counters and
// nonces past 255 / 256 / 511 / 512 (byte-length changes, low byte zero), an NFT whose URI list
// has grown to 130 entries and whose attributes are rewritten with what is already stored, role
// lists of ten entries (the seven roles of this version and three names it has no function for).
// Every leg passes through the monitors the calling check enabled; the variant selects the history.
//
//	0  URI list and attributes of one NFT growing, equal rewrites, then transfers of it
//	1  520 creates on one collection, transfers / burns / updates at nonces 255, 256, 257, 511, 512
//	2  ten-entry role lists (no duplicates): every role revoked again, one call or several, any order
//	3  role lists overlapping what is held (C11 / C13 only)
func growthHistory(c *harness.Ctx, variant int, shards uint32, enabled ...string) {
	s := NewScn(c.Rand("growth").Fork(uint64(variant*10+int(shards))), c.R, ScnOpts{Shards: shards, Enabled: enabled})
	u := s.U
	exec := func(cl node.Call) *node.Leg { return u.N.Exec(cl) }
	switch variant {
	case 0:
		for k := 0; k < 13; k++ {
			args := [][]byte{s.SFT, gen.U64(1)}
			for j := 0; j < 10; j++ {
				args = append(args, []byte(fmt.Sprintf("uri-%d-%d", k, j)))
			}
			exec(gen.SelfCall(FNFTAddURI, s.A, gen.BigGas, args...))
			if k%4 == 3 {
				// ... a URI that is already in the list, and the same one twice in one call
				exec(gen.SelfCall(FNFTAddURI, s.A, gen.BigGas, s.SFT, gen.U64(1), []byte("uri-0-0"), []byte("dup"), []byte("dup")))
			}
		}
		attrs := make([]byte, 1500)
		exec(gen.SelfCall(FNFTUpdAttr, s.A, gen.BigGas, s.SFT, gen.U64(1), attrs))
		exec(gen.SelfCall(FNFTUpdAttr, s.A, gen.BigGas, s.SFT, gen.U64(1), attrs)) // what is stored already
		exec(gen.SelfCall(FNFTUpdAttr, s.A, gen.BigGas, s.SFT, gen.U64(2), []byte{}))
		exec(gen.SelfCall(FNFTUpdAttr, s.A, gen.BigGas, s.SFT, gen.U64(2), []byte{}))    // empty on empty
		exec(gen.SelfCall(FNFTUpdAttr, s.A, gen.BigGas, s.NFT, gen.U64(1), []byte("a"))) // as created
		exec(gen.NFTTransferCall(s.A, s.Same, s.SFT, 1, big.NewInt(2), gen.BigGas))
		exec(gen.NFTTransferCall(s.A, s.Other, s.SFT, 1, big.NewInt(2), gen.BigGas))
		exec(gen.MultiCall(s.A, s.Other, []gen.Item{{ID: s.SFT, Nonce: 1, Qty: big.NewInt(1)}, {ID: s.F1, Qty: big.NewInt(3)}, {ID: s.SFT, Nonce: 1, Qty: big.NewInt(2)}}, gen.BigGas))
		u.N.DrainAll()
		c.R.Cover("growth/uri-list-and-attributes")
	case 1:
		for k := 0; k < 520; k++ {
			exec(gen.SelfCall(FNFTCreate, s.A, gen.BigGas, s.SFT, gen.Big(5), []byte(fmt.Sprintf("n%d", k)), gen.Big(int64(k%100)), []byte(fmt.Sprintf("hash-%d", k)), []byte("at"), []byte("u")))
		}
		for _, n := range []uint64{255, 256, 257, 511, 512, 513, 2, 1} {
			exec(gen.SelfCall(FNFTAddQty, s.A, gen.BigGas, s.SFT, gen.U64(n), gen.Big(2)))
			exec(gen.SelfCall(FNFTUpdAttr, s.A, gen.BigGas, s.SFT, gen.U64(n), []byte(fmt.Sprintf("attrs-of-%d", n))))
			exec(gen.NFTTransferCall(s.A, s.Same, s.SFT, n, big.NewInt(1), gen.BigGas))
			exec(gen.NFTTransferCall(s.A, s.Other, s.SFT, n, big.NewInt(1), gen.BigGas))
			exec(gen.MultiCall(s.A, s.Other, []gen.Item{{ID: s.SFT, Nonce: n, Qty: big.NewInt(1)}, {ID: s.F1, Qty: big.NewInt(1)}}, gen.BigGas))
			exec(gen.MultiCall(s.A, s.Same, []gen.Item{{ID: s.SFT, Nonce: n, Qty: big.NewInt(1)}}, gen.BigGas))
			exec(gen.SelfCall(FNFTBurn, s.A, gen.BigGas, s.SFT, gen.U64(n), gen.Big(1)))
			u.N.DrainAll()
		}
		// the role and its counter move on, the new holder continues the series
		if l := u.HandOver(s.A, s.Same, s.SFT); l.OK {
			u.N.DrainAll()
			exec(gen.SelfCall(FNFTCreate, s.Same, gen.BigGas, s.SFT, gen.Big(1), []byte("n"), gen.Big(1), []byte("h"), []byte("a"), []byte("u")))
		}
		c.R.Cover("growth/520-creates")
	case 2:
		names := []string{RoleMint, RoleBurn, RoleCreate, RoleAddQty, RoleNFTBurn, RoleAddURI, RoleUpdAttr, "ESDTTransferRole", "ESDTRoleFutureUse", "x"}
		who := s.Same // holds nothing yet
		for rot := 0; rot < len(names); rot++ {
			order := append(append([]string{}, names[rot:]...), names[:rot]...)
			for _, nm := range order {
				exec(node.Call{Func: FSetRole, Caller: gen.SysSC, Recipient: who, Args: [][]byte{s.F2, []byte(nm)}})
			}
			// revoke: the last one alone, then two at once, then the rest in one call
			exec(node.Call{Func: FUnSetRole, Caller: gen.SysSC, Recipient: who, Args: [][]byte{s.F2, []byte(order[9])}})
			exec(gen.SelfCall(FLocalMint, who, gen.BigGas, s.F2, gen.Big(1)))
			exec(node.Call{Func: FUnSetRole, Caller: gen.SysSC, Recipient: who, Args: [][]byte{s.F2, []byte(order[7]), []byte(order[8])}})
			exec(gen.SelfCall(FLocalMint, who, gen.BigGas, s.F2, gen.Big(1)))
			exec(gen.SelfCall(FLocalBurn, who, gen.BigGas, s.F2, gen.Big(1)))
			rest := [][]byte{s.F2}
			for _, nm := range order[:7] {
				rest = append(rest, []byte(nm))
			}
			exec(node.Call{Func: FUnSetRole, Caller: gen.SysSC, Recipient: who, Args: rest})
			exec(gen.SelfCall(FLocalMint, who, gen.BigGas, s.F2, gen.Big(1)))
			exec(gen.SelfCall(FLocalBurn, who, gen.BigGas, s.F2, gen.Big(1)))
		}
		c.R.Cover("growth/ten-entry-role-lists")
	case 3:
		// role lists that overlap what the account holds already (outside the system contract's
		// discipline, so only for the checks whose oracles do not lean on it: input comparison,
		// determinism, totality): held roles in front of, between and behind new ones
		who := s.Same
		exec(node.Call{Func: FSetRole, Caller: gen.SysSC, Recipient: who, Args: [][]byte{s.F2, []byte(RoleBurn), []byte(RoleAddQty)}})
		for _, list := range [][]string{{RoleBurn, RoleMint}, {RoleCreate, RoleBurn, RoleNFTBurn}, {RoleAddQty, RoleBurn, RoleAddURI, RoleMint, RoleUpdAttr}, {RoleMint, RoleMint}, {RoleBurn}} {
			args := [][]byte{s.F2}
			for _, nm := range list {
				args = append(args, []byte(nm))
			}
			exec(node.Call{Func: FSetRole, Caller: gen.SysSC, Recipient: who, Args: args})
			exec(node.Call{Func: FUnSetRole, Caller: gen.SysSC, Recipient: who, Args: append([][]byte{s.F2}, []byte(list[0]))})
		}
		c.R.Cover("growth/overlapping-role-lists")
	}
	c.R.Eval(u.N.Seq())
}
