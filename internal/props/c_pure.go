package props

import (
	"bytes"
	"encoding/hex"
	"encoding/json"
	"fmt"
	"github.com/ElrondNetwork/elrond-vm-common/mock"
	"math/big"
	"reflect"
	"sort"
	"strings"

	vmcommon "github.com/ElrondNetwork/elrond-vm-common"
	"github.com/ElrondNetwork/elrond-vm-common/builtInFunctions"
	"github.com/ElrondNetwork/elrond-vm-common/data"
	"github.com/ElrondNetwork/elrond-vm-common/data/esdt"
	"github.com/ElrondNetwork/elrond-vm-common/parsers"
	"github.com/ElrondNetwork/elrond-vm-common/txDataBuilder"
	"verif/internal/gen"
	"verif/internal/harness"
	"verif/internal/node"
	"verif/internal/refcodec"
	"verif/internal/world"
)

// Properties over pure functions (C12, C14, C20) and over the factory/registry (C18). The oracle
// still observes executions of the real code: every case runs the library function under a
// panic monitor and compares its result with an independent reference.

func guard(r *harness.Reporter, prop, sig string, witness func() interface{}, f func()) (panicked bool) {
	defer func() {
		if x := recover(); x != nil {
			panicked = true
			r.Violate(prop+":panic:"+sig, fmt.Sprintf("panic: %v", x), witness())
		}
	}()
	f()
	return false
}

// =============================================================================================
// C20 — helper types obey their algebraic laws

func init() {
	harness.Register(&harness.Property{
		ID: "C20", Level: "exploration", Exhaustive: true,
		Rule:             "exhaustive: all 65536 byte pairs and all inputs of length 0,1,3,4 over a 6-value alphabet through code metadata and both ESDT flag types (decode vs documented bits, decode∘encode∘decode, no stray bits); structured addresses of length 0..40 (and sparse lengths up to 70000) through every classifier vs reference implementations; generated output-account pairs/triples through MergeOutputAccounts vs a reference merge + mutation check of the merged-in account after later merges; uint64 boundary grid through SafeSubUint64. Non-trivial = case with a non-empty decoded value / a classifier answering true / a merge that changes the result; distinct = distinct inputs Address classifiers also on lengths 41..70000.",
		Assumptions:      []string{"reference implementations written from the documented bit layout and address layout (DESIGN.md §5 C20)"},
		Batches:          tierN(4, 8),
		DeathIsViolation: true,
		Floors:           map[string]int64{"C20/pairs": 65536, "C20/addresses": 1000, "C20/merges": 5000, "C20/safesub": 100},
		Run:              runC20,
	})
}

func runC20(c *harness.Ctx) {
	R := c.R
	if c.Batch == 0 {
		// ---- byte pairs ----
		for p := 0; p < 65536; p++ {
			b := []byte{byte(p >> 8), byte(p)}
			guard(R, "C20", "metadata", func() interface{} { return hex.EncodeToString(b) }, func() {
				cm := vmcommon.CodeMetadataFromBytes(b)
				want := vmcommon.CodeMetadata{Upgradeable: b[0]&1 != 0, Readable: b[0]&4 != 0, Payable: b[1]&2 != 0}
				if cm != want {
					R.Violate("C20:codemetadata-decode", fmt.Sprintf("CodeMetadataFromBytes(%x) = %+v, documented bits give %+v", b, cm, want), hex.EncodeToString(b))
				}
				enc := cm.ToBytes()
				if len(enc) != 2 || enc[0]&^5 != 0 || enc[1]&^2 != 0 {
					R.Violate("C20:codemetadata-stray-bits", fmt.Sprintf("ToBytes of %+v = %x sets other bits", cm, enc), hex.EncodeToString(b))
				}
				if vmcommon.CodeMetadataFromBytes(enc) != cm {
					R.Violate("C20:codemetadata-roundtrip", fmt.Sprintf("%x does not round-trip: %+v -> %x", b, cm, enc), hex.EncodeToString(b))
				}
				g := builtInFunctions.ESDTGlobalMetadataFromBytes(b)
				if g.Paused != (b[0]&1 != 0) {
					R.Violate("C20:global-decode", fmt.Sprintf("ESDTGlobalMetadataFromBytes(%x).Paused = %v", b, g.Paused), hex.EncodeToString(b))
				}
				ge := g.ToBytes()
				if len(ge) != 2 || ge[0]&^1 != 0 || ge[1] != 0 || builtInFunctions.ESDTGlobalMetadataFromBytes(ge) != g {
					R.Violate("C20:global-roundtrip", fmt.Sprintf("global flag %x -> %+v -> %x", b, g, ge), hex.EncodeToString(b))
				}
				um := builtInFunctions.ESDTUserMetadataFromBytes(b)
				if um.Frozen != (b[0]&1 != 0) {
					R.Violate("C20:user-decode", fmt.Sprintf("ESDTUserMetadataFromBytes(%x).Frozen = %v", b, um.Frozen), hex.EncodeToString(b))
				}
				ue := um.ToBytes()
				if len(ue) != 2 || ue[0]&^1 != 0 || ue[1] != 0 || builtInFunctions.ESDTUserMetadataFromBytes(ue) != um {
					R.Violate("C20:user-roundtrip", fmt.Sprintf("user flag %x -> %+v -> %x", b, um, ue), hex.EncodeToString(b))
				}
				if cm != (vmcommon.CodeMetadata{}) || g.Paused || um.Frozen {
					R.Distinct(uint64(p))
				}
				// the byte form belongs to the caller (the library itself hands it to the protobuf
				// decoder, which may write into it): scribbling over it affects no later encoding
				for _, x := range [][]byte{enc, ge, ue} {
					for i := range x {
						x[i] = 0xa5
					}
				}
			})
			R.Cover("C20/pairs")
		}
		R.Eval(65536)
		// ---- other lengths ----
		alpha := []byte{0, 1, 2, 4, 7, 0xff}
		var rec func(b []byte, n int)
		rec = func(b []byte, n int) {
			if len(b) == n {
				bb := append([]byte{}, b...)
				guard(R, "C20", "metadata-len", func() interface{} { return hex.EncodeToString(bb) }, func() {
					if vmcommon.CodeMetadataFromBytes(bb) != (vmcommon.CodeMetadata{}) || builtInFunctions.ESDTGlobalMetadataFromBytes(bb).Paused || builtInFunctions.ESDTUserMetadataFromBytes(bb).Frozen {
						R.Violate("C20:other-length-not-empty", fmt.Sprintf("input %x of length %d decodes to a non-empty value", bb, len(bb)), hex.EncodeToString(bb))
					}
				})
				R.Cover("C20/other-lengths")
				R.Eval(1)
				return
			}
			for _, a := range alpha {
				rec(append(b, a), n)
			}
		}
		for _, n := range []int{0, 1, 3, 4} {
			rec(nil, n)
		}
		guard(R, "C20", "metadata-nil", func() interface{} { return "nil" }, func() {
			if vmcommon.CodeMetadataFromBytes(nil) != (vmcommon.CodeMetadata{}) {
				R.Violate("C20:other-length-not-empty", "nil decodes to a non-empty value", "nil")
			}
		})
		sample(c, map[string]interface{}{"pair": "0502", "decoded": fmt.Sprintf("%+v", vmcommon.CodeMetadataFromBytes([]byte{5, 2}))})
		// ---- SafeSubUint64 ----
		grid := []uint64{0, 1, 2, 3, 1<<31 - 1, 1 << 31, 1<<32 - 1, 1 << 32, 1<<63 - 1, 1 << 63, 1<<63 + 1, ^uint64(0) - 1, ^uint64(0)}
		for _, a := range grid {
			for _, b := range grid {
				guard(R, "C20", "safesub", func() interface{} { return fmt.Sprint(a, b) }, func() {
					got, err := vmcommon.SafeSubUint64(a, b)
					if (err != nil) != (a < b) || (err == nil && got != a-b) {
						R.Violate("C20:safesub", fmt.Sprintf("SafeSubUint64(%d,%d) = %d, %v", a, b, got, err), fmt.Sprint(a, b))
					}
				})
				R.Cover("C20/safesub")
				R.Eval(1)
			}
		}
	}
	if c.Batch == 1%c.Batches {
		c20Addresses(c)
	}
	c20Merges(c)
}

func refIsSC(a []byte) bool {
	if len(a) <= 10 {
		return false
	}
	for _, b := range a[:8] {
		if b != 0 {
			return false
		}
	}
	return true
}
func refAllFF(a []byte) bool {
	if len(a) == 0 {
		return false
	}
	for _, b := range a {
		if b != 0xff {
			return false
		}
	}
	return true
}
func refOnMeta(id, a []byte) bool {
	if len(a) <= 25 || !refAllFF(id) || !refIsSC(a) {
		return false
	}
	for _, b := range a[10:25] {
		if b != 0 {
			return false
		}
	}
	return true
}

func c20Addresses(c *harness.Ctx) {
	R := c.R
	var addrs [][]byte
	for n := 0; n <= 40; n++ {
		addrs = append(addrs, make([]byte, n), bytes.Repeat([]byte{0xff}, n), bytes.Repeat([]byte{1}, n))
		for _, z := range []int{7, 8, 9, 10, 11} {
			a := bytes.Repeat([]byte{0x11}, n)
			for i := 0; i < z && i < n; i++ {
				a[i] = 0
			}
			addrs = append(addrs, a)
			// zero run at 10..25 of varying length
			for _, end := range []int{24, 25, 26} {
				b := append([]byte{}, a...)
				for i := 10; i < end && i < n; i++ {
					b[i] = 0
				}
				addrs = append(addrs, b)
				if n > 0 {
					b2 := append([]byte{}, b...)
					b2[n-1] = 0xff
					addrs = append(addrs, b2)
				}
			}
		}
		for _, ff := range []int{29, 30, 31, 32} {
			a := bytes.Repeat([]byte{0x22}, n)
			for i := 0; i < ff && i < n; i++ {
				a[i] = 0xff
			}
			addrs = append(addrs, a)
		}
	}
	// "any length": far beyond 40 as well (buffers, pages, more than 64 KiB)
	for _, n := range []int{41, 48, 63, 64, 65, 66, 100, 127, 128, 129, 255, 256, 257, 1000, 4096, 70000} {
		z := make([]byte, n)
		f := bytes.Repeat([]byte{0xff}, n)
		sc := bytes.Repeat([]byte{0x33}, n)
		for i := 0; i < 8; i++ {
			sc[i] = 0
		}
		meta := append([]byte{}, sc...)
		for i := 10; i < 25; i++ {
			meta[i] = 0
		}
		meta[n-1] = 0xff
		addrs = append(addrs, z, f, sc, meta)
	}
	for i := 0; i < 32; i++ {
		for _, d := range []byte{1, 0xff} {
			a := append([]byte{}, vmcommon.ESDTSCAddress...)
			a[i] += d
			addrs = append(addrs, a)
			b := append([]byte{}, vmcommon.SystemAccountAddress...)
			b[i] += d
			addrs = append(addrs, b)
		}
	}
	addrs = append(addrs, vmcommon.ESDTSCAddress, vmcommon.SystemAccountAddress, nil)
	ids := [][]byte{nil, {}, {0xff}, {0xff, 0xff}, {0}, {0xff, 0}, {1}}
	for _, a := range addrs {
		a := a
		guard(R, "C20", "address-classifier", func() interface{} { return hex.EncodeToString(a) }, func() {
			sc := vmcommon.IsSmartContractAddress(a)
			if sc != refIsSC(a) {
				R.Violate("C20:is-sc-address", fmt.Sprintf("IsSmartContractAddress(%x) = %v", a, sc), hex.EncodeToString(a))
			}
			if e := vmcommon.IsEmptyAddress(a); e != bytes.Equal(a, make([]byte, len(a))) {
				R.Violate("C20:is-empty-address", fmt.Sprintf("IsEmptyAddress(%x) = %v", a, e), hex.EncodeToString(a))
			}
			sys := vmcommon.IsSystemAccountAddress(a)
			wantSys := len(a) >= 30 && refAllFF(a[:30])
			if sys != wantSys {
				R.Violate("C20:is-system-account", fmt.Sprintf("IsSystemAccountAddress(%x) = %v", a, sys), hex.EncodeToString(a))
			}
			if m := vmcommon.IsMetachainIdentifier(a); m != refAllFF(a) {
				R.Violate("C20:is-metachain-identifier", fmt.Sprintf("IsMetachainIdentifier(%x) = %v", a, m), hex.EncodeToString(a))
			}
			for _, id := range ids {
				om := vmcommon.IsSmartContractOnMetachain(id, a)
				if om != refOnMeta(id, a) {
					R.Violate("C20:is-sc-on-metachain", fmt.Sprintf("IsSmartContractOnMetachain(%x, %x) = %v", id, a, om), hex.EncodeToString(a))
				}
				if om && !sc {
					R.Violate("C20:metachain-contract-not-contract", fmt.Sprintf("%x is a metachain contract but not a contract", a), hex.EncodeToString(a))
				}
				if om {
					R.Cover("C20/on-metachain-true")
				}
			}
			if al := vmcommon.IsAllowedToSaveUnderKey(a); al != !bytes.HasPrefix(a, []byte("ELROND")) {
				R.Violate("C20:allowed-key", fmt.Sprintf("IsAllowedToSaveUnderKey(%x) = %v", a, al), hex.EncodeToString(a))
			}
			if sc || sys {
				R.Distinct(harness.Hash64("addr", string(a)))
			}
		})
		R.Cover("C20/addresses")
		R.Eval(1)
	}
	// keys around the protected prefix
	for _, k := range []string{"", "E", "ELRON", "ELROND", "ELRONDx", "elrond", "ELROnD", "xELROND", "ELRONE", "ELROND\x00"} {
		if al := vmcommon.IsAllowedToSaveUnderKey([]byte(k)); al != !strings.HasPrefix(k, "ELROND") {
			R.Violate("C20:allowed-key", fmt.Sprintf("IsAllowedToSaveUnderKey(%q) = %v", k, al), k)
		}
	}
	// documented classification of the two special addresses
	if !vmcommon.IsSystemAccountAddress(vmcommon.SystemAccountAddress) || vmcommon.IsSmartContractAddress(vmcommon.SystemAccountAddress) ||
		!vmcommon.IsSmartContractAddress(vmcommon.ESDTSCAddress) || !vmcommon.IsSmartContractOnMetachain([]byte{0xff}, vmcommon.ESDTSCAddress) || vmcommon.IsSystemAccountAddress(vmcommon.ESDTSCAddress) {
		R.Violate("C20:special-addresses", "system account / ESDT system contract address do not classify as documented", "special")
	}
	if len(vmcommon.ESDTSCAddress) != 32 || len(vmcommon.SystemAccountAddress) != 32 || !refAllFF(vmcommon.SystemAccountAddress) ||
		hex.EncodeToString(vmcommon.ESDTSCAddress) != "000000000000000000010000000000000000000000000000000000000002ffff" {
		R.Violate("C20:special-addresses-value", "the special addresses do not have their protocol values", "special")
	}
}

// ---- merges ----

func genOutAcc(r *harness.Rand) *vmcommon.OutputAccount {
	o := &vmcommon.OutputAccount{}
	if r.Chance(70) {
		o.Address = r.Bytes(1 + r.Intn(3))
	}
	o.Nonce = []uint64{0, 1, 2, 3, 4, 1<<63 - 1, 1 << 63, 1<<63 + 1, ^uint64(0) - 1, ^uint64(0), 1 << 32}[r.Intn(11)]
	if r.Chance(50) {
		o.Balance = big.NewInt(int64(r.Intn(100)))
	}
	switch r.Intn(4) {
	case 0:
	case 1:
		o.BalanceDelta = big.NewInt(int64(r.Intn(1000)))
	case 2:
		o.BalanceDelta = big.NewInt(-int64(r.Intn(1000)))
	default:
		o.BalanceDelta = new(big.Int).Lsh(big.NewInt(int64(1+r.Intn(9))), 70)
	}
	if r.Chance(70) {
		o.StorageUpdates = map[string]*vmcommon.StorageUpdate{}
		for i := 0; i < r.Intn(4); i++ {
			k := fmt.Sprintf("k%d", r.Intn(4))
			o.StorageUpdates[k] = &vmcommon.StorageUpdate{Offset: []byte(k), Data: r.Bytes(r.Intn(4))}
		}
	}
	if r.Chance(40) {
		o.Code = r.Bytes(r.Intn(3))
	}
	if r.Chance(40) {
		o.CodeMetadata = r.Bytes(r.Intn(3))
	}
	if r.Chance(30) {
		o.CodeDeployerAddress = r.Bytes(2)
	}
	n := r.Intn(4)
	// slices with spare capacity
	o.OutputTransfers = make([]vmcommon.OutputTransfer, 0, n+r.Intn(3))
	for i := 0; i < n; i++ {
		o.OutputTransfers = append(o.OutputTransfers, vmcommon.OutputTransfer{Value: big.NewInt(int64(r.Intn(50))), GasLimit: uint64(r.Intn(100)), Data: r.Bytes(r.Intn(3)), SenderAddress: r.Bytes(1)})
	}
	o.GasUsed = uint64(r.Intn(1000))
	return o
}

func cloneOutAcc(o *vmcommon.OutputAccount) *vmcommon.OutputAccount {
	c := &vmcommon.OutputAccount{Address: append([]byte(nil), o.Address...), Nonce: o.Nonce, Code: append([]byte(nil), o.Code...), CodeMetadata: append([]byte(nil), o.CodeMetadata...),
		CodeDeployerAddress: append([]byte(nil), o.CodeDeployerAddress...), GasUsed: o.GasUsed}
	if o.Address == nil {
		c.Address = nil
	}
	if o.Code == nil {
		c.Code = nil
	}
	if o.CodeMetadata == nil {
		c.CodeMetadata = nil
	}
	if o.CodeDeployerAddress == nil {
		c.CodeDeployerAddress = nil
	}
	if o.Balance != nil {
		c.Balance = new(big.Int).Set(o.Balance)
	}
	if o.BalanceDelta != nil {
		c.BalanceDelta = new(big.Int).Set(o.BalanceDelta)
	}
	if o.StorageUpdates != nil {
		c.StorageUpdates = map[string]*vmcommon.StorageUpdate{}
		for k, v := range o.StorageUpdates {
			c.StorageUpdates[k] = &vmcommon.StorageUpdate{Offset: append([]byte(nil), v.Offset...), Data: append([]byte(nil), v.Data...)}
		}
	}
	if o.OutputTransfers != nil {
		c.OutputTransfers = make([]vmcommon.OutputTransfer, len(o.OutputTransfers))
		for i, t := range o.OutputTransfers {
			c.OutputTransfers[i] = vmcommon.OutputTransfer{Value: new(big.Int).Set(t.Value), GasLimit: t.GasLimit, GasLocked: t.GasLocked, Data: append([]byte(nil), t.Data...), CallType: t.CallType, SenderAddress: append([]byte(nil), t.SenderAddress...)}
		}
	}
	return c
}

func canonOutAcc(o *vmcommon.OutputAccount) string {
	var sb strings.Builder
	fmt.Fprintf(&sb, "addr=%x nonce=%d bal=%v delta=%v code=%x cm=%x dep=%x gas=%d su{", o.Address, o.Nonce, o.Balance, o.BalanceDelta, o.Code, o.CodeMetadata, o.CodeDeployerAddress, o.GasUsed)
	keys := make([]string, 0, len(o.StorageUpdates))
	for k := range o.StorageUpdates {
		keys = append(keys, k)
	}
	sort.Strings(keys)
	for _, k := range keys {
		fmt.Fprintf(&sb, "%s=%x/%x;", k, o.StorageUpdates[k].Offset, o.StorageUpdates[k].Data)
	}
	sb.WriteString("} ot[")
	for _, t := range o.OutputTransfers {
		fmt.Fprintf(&sb, "(%v %d %d %x %d %x)", t.Value, t.GasLimit, t.GasLocked, t.Data, t.CallType, t.SenderAddress)
	}
	sb.WriteString("]")
	return sb.String()
}

// refMerge: the stated fields only (delta sum with nil = 0, max nonce, later storage update wins,
// only the transfers beyond the current length are appended).
func refMerge(l, r *vmcommon.OutputAccount) (delta *big.Int, nonce uint64, su map[string]string, nTransfers int, tail []string) {
	delta = new(big.Int)
	if l.BalanceDelta != nil {
		delta.Add(delta, l.BalanceDelta)
	}
	if r.BalanceDelta != nil {
		delta.Add(delta, r.BalanceDelta)
	}
	nonce = l.Nonce
	if r.Nonce > nonce {
		nonce = r.Nonce
	}
	su = map[string]string{}
	for k, v := range l.StorageUpdates {
		su[k] = string(v.Data)
	}
	for k, v := range r.StorageUpdates {
		su[k] = string(v.Data)
	}
	nTransfers = len(l.OutputTransfers)
	if len(r.OutputTransfers) > nTransfers {
		for _, t := range r.OutputTransfers[nTransfers:] {
			tail = append(tail, fmt.Sprintf("%v %d %x", t.Value, t.GasLimit, t.Data))
		}
		nTransfers = len(r.OutputTransfers)
	}
	return
}

func c20Merges(c *harness.Ctx) {
	R := c.R
	r := c.Rand("merge")
	n := c.Scale(30000, 200000) / c.Batches
	for i := 0; i < n; i++ {
		left, right, third := genOutAcc(r), genOutAcc(r), genOutAcc(r)
		if r.Chance(20) && len(left.OutputTransfers) > 0 {
			// one transfer list a prefix of the other
			right.OutputTransfers = append(append([]vmcommon.OutputTransfer{}, cloneOutAcc(left).OutputTransfers...), right.OutputTransfers...)
		}
		// spare capacity of the merged-in transfer list carries sentinels: nobody may write there
		fullR := right.OutputTransfers[:cap(right.OutputTransfers)]
		for j := len(right.OutputTransfers); j < len(fullR); j++ {
			fullR[j] = vmcommon.OutputTransfer{GasLimit: 0xDEADBEEF, Data: []byte("sentinel")}
		}
		rightCopy, thirdCopy := cloneOutAcc(right), cloneOutAcc(third)
		leftCopy := cloneOutAcc(left)
		wit := func() interface{} {
			return map[string]string{"left": canonOutAcc(leftCopy), "right": canonOutAcc(rightCopy), "third": canonOutAcc(thirdCopy)}
		}
		guard(R, "C20", "merge", wit, func() {
			delta, nonce, su, nT, tail := refMerge(leftCopy, rightCopy)
			left.MergeOutputAccounts(right)
			if left.BalanceDelta == nil || left.BalanceDelta.Cmp(delta) != 0 {
				R.Violate("C20:merge-delta", fmt.Sprintf("merged BalanceDelta %v, expected %v", left.BalanceDelta, delta), wit())
			}
			if left.Nonce != nonce {
				R.Violate("C20:merge-nonce", fmt.Sprintf("merged nonce %d, expected %d", left.Nonce, nonce), wit())
			}
			if len(left.StorageUpdates) != len(su) {
				R.Violate("C20:merge-storage", "merged storage updates differ from 'later update wins'", wit())
			} else {
				for k, v := range su {
					if u := left.StorageUpdates[k]; u == nil || string(u.Data) != v {
						R.Violate("C20:merge-storage", "merged storage updates differ from 'later update wins'", wit())
						break
					}
				}
			}
			if len(left.OutputTransfers) != nT {
				R.Violate("C20:merge-transfers", fmt.Sprintf("merged transfer count %d, expected %d", len(left.OutputTransfers), nT), wit())
			} else {
				for j := 0; j < len(leftCopy.OutputTransfers); j++ {
					if fmt.Sprintf("%v %d %x", left.OutputTransfers[j].Value, left.OutputTransfers[j].GasLimit, left.OutputTransfers[j].Data) != fmt.Sprintf("%v %d %x", leftCopy.OutputTransfers[j].Value, leftCopy.OutputTransfers[j].GasLimit, leftCopy.OutputTransfers[j].Data) {
						R.Violate("C20:merge-transfers", "existing transfers changed by the merge", wit())
					}
				}
				for j, t := range tail {
					got := left.OutputTransfers[len(leftCopy.OutputTransfers)+j]
					if fmt.Sprintf("%v %d %x", got.Value, got.GasLimit, got.Data) != t {
						R.Violate("C20:merge-transfers", "appended transfers are not the new ones", wit())
					}
				}
			}
			if canonOutAcc(right) != canonOutAcc(rightCopy) {
				R.Violate("C20:merge-mutates-argument", "the merged-in account was modified by the merge", wit())
			}
			// two further merges into the same result must not reach the first argument either
			left.MergeOutputAccounts(third)
			left.MergeOutputAccounts(cloneOutAcc(thirdCopy))
			if left.BalanceDelta != nil {
				left.BalanceDelta.Add(left.BalanceDelta, big.NewInt(1)) // what a caller does with its own result
			}
			for _, u := range left.StorageUpdates {
				_ = u
			}
			if canonOutAcc(right) != canonOutAcc(rightCopy) {
				R.Violate("C20:merge-aliases-argument", "the merged-in account changed through later merges into / use of the same result (aliasing)", wit())
			}
			if canonOutAcc(third) != canonOutAcc(thirdCopy) {
				R.Violate("C20:merge-aliases-argument", "the second merged-in account changed through later merges into the same result", wit())
			}
			for j := len(right.OutputTransfers); j < len(fullR); j++ {
				if fullR[j].GasLimit != 0xDEADBEEF || string(fullR[j].Data) != "sentinel" {
					R.Violate("C20:merge-writes-argument-memory", "a later merge into the result wrote into the spare capacity of the merged-in account's transfer list (the result shares its backing array)", wit())
					break
				}
			}
			// two results that merged the same account stay independent of each other
			r1, r2 := &vmcommon.OutputAccount{}, &vmcommon.OutputAccount{}
			r1.MergeOutputAccounts(right)
			r2.MergeOutputAccounts(right)
			longA, longB := cloneOutAcc(thirdCopy), cloneOutAcc(thirdCopy)
			for k := 0; k < len(right.OutputTransfers)+2; k++ {
				longA.OutputTransfers = append(longA.OutputTransfers, vmcommon.OutputTransfer{Value: big.NewInt(int64(1000 + k)), GasLimit: 1})
				longB.OutputTransfers = append(longB.OutputTransfers, vmcommon.OutputTransfer{Value: big.NewInt(int64(2000 + k)), GasLimit: 2})
			}
			r1.MergeOutputAccounts(longA)
			r2.MergeOutputAccounts(longB)
			for j, t := range r1.OutputTransfers {
				var want vmcommon.OutputTransfer
				if j < len(rightCopy.OutputTransfers) {
					want = rightCopy.OutputTransfers[j]
				} else {
					want = longA.OutputTransfers[j]
				}
				if t.GasLimit != want.GasLimit || (t.Value == nil) != (want.Value == nil) || (t.Value != nil && t.Value.Cmp(want.Value) != 0) {
					R.Violate("C20:merge-results-share-memory", fmt.Sprintf("two results merged the same account and then different ones: transfer %d of the first result was overwritten by the second result's merge", j), wit())
					break
				}
			}
		})
		R.Cover("C20/merges")
		if i < 3000 {
			R.Distinct(harness.Hash64("merge", canonOutAcc(leftCopy), canonOutAcc(rightCopy)))
		}
		if i == 0 {
			sample(c, wit())
		}
	}
	R.Eval(n)
}

// =============================================================================================
// C14 — token-data serialisation

func init() {
	harness.Register(&harness.Property{
		ID: "C14", Level: "exploration", Exhaustive: true,
		Rule:             "exhaustive sub-domain: the amount codec over ALL buffers of length 0..2 (quick) / 0..3 (thorough, 16.8 M) and all values |v| < 2^16 of both signs; decode of ALL byte strings up to length 2 (quick) / 3 (thorough) through the three messages; plus generated structured values (zero / huge / negative amounts, absent vs empty fields, 0..8 roles and URIs incl. empty ones, nested empty metadata) compared byte-for-byte with the reference encoder, and mutated valid encodings (bit flips, truncations, length inflation) through the decoders. Non-trivial = value with at least one non-default field / decode that succeeds; distinct = distinct encodings + Size() / in-place update of the amount / Marshal() / MarshalToSizedBuffer() in every order (no encoder state between calls).",
		Assumptions:      []string{"reference codec written from esdt.proto and the documented amount format, not from esdt.pb.go", "MarshalTo into a caller-supplied dirty buffer is outside the claim (production path allocates a zeroed buffer)"},
		Batches:          tierN(8, 16),
		DeathIsViolation: true,
		MemLimitMB:       6144,
		Floors:           map[string]int64{"C14/amount-buffers": 60000, "C14/amount-values": 100000, "C14/structured": 5000, "C14/mutated-decodes": 20000},
		Run:              runC14,
	})
}

func libTokenFromRef(t *refcodec.Token) *esdt.ESDigitalToken {
	e := &esdt.ESDigitalToken{Type: t.Type, Value: t.Value, Properties: t.Properties, Reserved: t.Reserved}
	if t.Meta != nil {
		e.TokenMetaData = &esdt.MetaData{Nonce: t.Meta.Nonce, Name: t.Meta.Name, Creator: t.Meta.Creator, Royalties: t.Meta.Royalties, Hash: t.Meta.Hash, URIs: t.Meta.URIs, Attributes: t.Meta.Attributes}
	}
	return e
}

func min(a, b int) int {
	if a < b {
		return a
	}
	return b
}

func eqB(a, b []byte) bool { return (len(a) == 0 && len(b) == 0) || bytes.Equal(a, b) }

func eqBigNilZero(a, b *big.Int) bool {
	if a == nil || b == nil {
		return a == b
	}
	return a.Cmp(b) == 0
}

func libEqualsRef(e *esdt.ESDigitalToken, t *refcodec.Token) bool {
	if e.Type != t.Type || !eqBigNilZero(e.Value, t.Value) || !eqB(e.Properties, t.Properties) || !eqB(e.Reserved, t.Reserved) {
		return false
	}
	if (e.TokenMetaData == nil) != (t.Meta == nil) {
		return false
	}
	if t.Meta != nil {
		m := e.TokenMetaData
		if m.Nonce != t.Meta.Nonce || m.Royalties != t.Meta.Royalties || !eqB(m.Name, t.Meta.Name) || !eqB(m.Creator, t.Meta.Creator) || !eqB(m.Hash, t.Meta.Hash) || !eqB(m.Attributes, t.Meta.Attributes) || len(m.URIs) != len(t.Meta.URIs) {
			return false
		}
		for i := range m.URIs {
			if !eqB(m.URIs[i], t.Meta.URIs[i]) {
				return false
			}
		}
	}
	return true
}

func genRefToken(r *harness.Rand) *refcodec.Token {
	fld := func() []byte {
		switch r.Intn(5) {
		case 0:
			return nil
		case 1:
			return []byte{}
		case 2:
			return r.Bytes(1)
		case 3:
			return r.Bytes(200 + r.Intn(100))
		default:
			return r.Bytes(r.Intn(20))
		}
	}
	t := &refcodec.Token{Type: []uint32{0, 1, 2, 127, 128, 1 << 31, ^uint32(0)}[r.Intn(7)], Properties: fld(), Reserved: fld()}
	switch r.Intn(7) {
	case 0:
		t.Value = nil
	case 1:
		t.Value = big.NewInt(0)
	case 2:
		t.Value = big.NewInt(int64(r.Intn(300)))
	case 3:
		t.Value = big.NewInt(-int64(1 + r.Intn(300)))
	case 4:
		t.Value = new(big.Int).Lsh(big.NewInt(int64(1+r.Intn(255))), uint(r.Intn(900)))
	case 5:
		t.Value = new(big.Int).Neg(new(big.Int).Lsh(big.NewInt(1), uint(r.Intn(300))))
	default:
		t.Value = new(big.Int).SetBytes(r.Bytes(1 + r.Intn(40)))
	}
	if r.Chance(60) {
		m := &refcodec.MetaData{Name: fld(), Creator: fld(), Hash: fld(), Attributes: fld()}
		m.Nonce = []uint64{0, 1, 127, 128, 1 << 32, ^uint64(0)}[r.Intn(6)]
		m.Royalties = []uint32{0, 1, 10000, 10001, ^uint32(0)}[r.Intn(5)]
		for i := 0; i < r.Intn(9); i++ {
			m.URIs = append(m.URIs, fld())
		}
		if r.Chance(10) {
			m = &refcodec.MetaData{} // nested empty metadata
		}
		t.Meta = m
	}
	return t
}

// varintBoundaryTokens: every number and every length the wire format writes as a varint, placed
// on both sides of and exactly at each 7-bit boundary (2^7, 2^14, 2^21 ...): scalar fields up to
// 2^63 / 2^32, lengths of every byte field up to 2^14 + 1 (2^21 + 1 in the thorough tier), and
// nested metadata whose total length crosses the same boundaries.
func varintBoundaryTokens(thorough bool) []*refcodec.Token {
	var out []*refcodec.Token
	var vals []uint64
	for k := uint(7); k <= 63; k += 7 {
		vals = append(vals, 1<<k-1, 1<<k, 1<<k+1)
	}
	vals = append(vals, 1<<32-1, 1<<32, 1<<64-1)
	base := func() *refcodec.Token {
		return &refcodec.Token{Type: 1, Value: big.NewInt(5), Meta: &refcodec.MetaData{Nonce: 3, Name: []byte("n"), Creator: []byte("c"), Royalties: 7, Hash: []byte("h"), URIs: [][]byte{[]byte("u")}, Attributes: []byte("a")}}
	}
	for _, v := range vals {
		t := base()
		t.Meta.Nonce = v
		out = append(out, t)
		if v <= 1<<32-1 {
			t = base()
			t.Type = uint32(v)
			out = append(out, t)
			t = base()
			t.Meta.Royalties = uint32(v)
			out = append(out, t)
		}
	}
	lens := []int{126, 127, 128, 129, 1<<14 - 2, 1<<14 - 1, 1 << 14, 1<<14 + 1}
	if thorough {
		lens = append(lens, 1<<21-1, 1<<21, 1<<21+1)
	}
	fill := func(n int) []byte { return bytes.Repeat([]byte{0x61}, n) }
	for _, n := range lens {
		for f := 0; f < 8; f++ {
			t := base()
			switch f {
			case 0:
				t.Properties = fill(n)
			case 1:
				t.Reserved = fill(n)
			case 2:
				t.Meta.Name = fill(n)
			case 3:
				t.Meta.Creator = fill(n)
			case 4:
				t.Meta.Hash = fill(n)
			case 5:
				t.Meta.Attributes = fill(n)
			case 6:
				t.Meta.URIs = [][]byte{[]byte("x"), fill(n), {}}
			case 7:
				// the amount: sign byte + n-1 magnitude bytes
				t.Value = new(big.Int).SetBytes(append([]byte{1}, make([]byte, n-2)...))
			}
			out = append(out, t)
		}
		// the nested metadata message as a whole is n bytes long, or one more / less: the
		// attributes take up the slack (overhead of base(): measured with the reference codec)
		for d := -3; d <= 3; d++ {
			t := base()
			t.Properties, t.Value = nil, nil
			probe := len(refcodec.EncodeToken(t))
			if pad := n + d - probe; pad > 0 {
				t.Meta.Attributes = fill(1 + pad)
				out = append(out, t)
			}
		}
	}
	return out
}

func runC14(c *harness.Ctx) {
	R := c.R
	caster := &data.BigIntCaster{}
	// ---- amount codec: all buffers of length 0..L ----
	L := c.Scale(2, 3)
	checkBuf := func(buf []byte) {
		guard(R, "C14", "amount-unmarshal", func() interface{} { return hex.EncodeToString(buf) }, func() {
			v, err := caster.Unmarshal(buf)
			rv, rerr := refcodec.DecodeAmount(buf)
			if (err != nil) != (rerr != nil) {
				// the decoder may be lenient (accept more than the canonical format); it must
				// never reject what the format defines
				if err != nil && rerr == nil {
					R.Violate("C14:amount-decode-rejects-valid", fmt.Sprintf("Unmarshal(%x) fails: %v", buf, err), hex.EncodeToString(buf))
				}
				return
			}
			if err != nil {
				return
			}
			if !eqBigNilZero(v, rv) && !(v != nil && rv != nil && v.Sign() == 0 && rv.Sign() == 0) {
				R.Violate("C14:amount-decode-value", fmt.Sprintf("Unmarshal(%x) = %v, format says %v", buf, v, rv), hex.EncodeToString(buf))
			}
			// a successful decode is stable under re-encode -> decode
			sz := caster.Size(v)
			out := make([]byte, sz)
			n, merr := caster.MarshalTo(v, out)
			if merr != nil || n != sz {
				R.Violate("C14:amount-size", fmt.Sprintf("Size(%v) = %d but MarshalTo wrote %d (err %v)", v, sz, n, merr), hex.EncodeToString(buf))
				return
			}
			v2, err2 := caster.Unmarshal(out[:n])
			if err2 != nil || !eqBigNilZero(v, v2) {
				R.Violate("C14:amount-decode-unstable", fmt.Sprintf("decode(%x) = %v re-encodes to %x which decodes to %v (%v)", buf, v, out[:n], v2, err2), hex.EncodeToString(buf))
			}
			if v != nil {
				R.Distinct(harness.Hash64("amt", string(out[:n])))
			}
		})
		R.Cover("C14/amount-buffers")
	}
	if c.Batch == 0 {
		checkBuf(nil)
		checkBuf([]byte{})
	}
	total := 0
	for n := 1; n <= L; n++ {
		max := 1 << (8 * uint(n))
		for x := c.Batch; x < max; x += c.Batches {
			buf := make([]byte, n)
			for i := 0; i < n; i++ {
				buf[i] = byte(x >> (8 * uint(n-1-i)))
			}
			checkBuf(buf)
			total++
		}
	}
	R.Eval(total)
	// ---- amount codec: all values |v| < 2^16, both signs, plus nil ----
	checkVal := func(v *big.Int) {
		guard(R, "C14", "amount-marshal", func() interface{} { return fmt.Sprint(v) }, func() {
			want := refcodec.EncodeAmount(v)
			sz := caster.Size(v)
			out := make([]byte, sz)
			n, err := caster.MarshalTo(v, out)
			if err != nil || n != sz || !bytes.Equal(out[:n], want) {
				R.Violate("C14:amount-encode", fmt.Sprintf("MarshalTo(%v) = %x (n=%d size=%d err=%v), documented format %x", v, out, n, sz, err, want), fmt.Sprint(v))
				return
			}
			back, err := caster.Unmarshal(out[:n])
			if err != nil || !eqBigNilZero(v, back) {
				R.Violate("C14:amount-roundtrip", fmt.Sprintf("Unmarshal(MarshalTo(%v)) = %v (%v)", v, back, err), fmt.Sprint(v))
			}
			// into a buffer that is not zeroed: all Size() bytes are written
			for _, fill := range []byte{0xff, 0x01} {
				dirty := bytes.Repeat([]byte{fill}, sz+3)
				n, err := caster.MarshalTo(v, dirty)
				if err != nil || n != sz || !bytes.Equal(dirty[:n], want) {
					R.Violate("C14:amount-encode-dirty-buffer", fmt.Sprintf("MarshalTo(%v) into a buffer pre-filled with %02x = %x (n=%d err=%v), documented format %x", v, fill, dirty[:min(n, len(dirty))], n, err, want), fmt.Sprint(v))
					break
				}
			}
			// too small a buffer must be an error, never a panic
			if v != nil && sz > 1 {
				if _, err := caster.MarshalTo(v, make([]byte, len(v.Bytes()))); err == nil && len(v.Bytes()) > 0 {
					R.Violate("C14:amount-short-buffer", fmt.Sprintf("MarshalTo(%v) into a too short buffer succeeded", v), fmt.Sprint(v))
				}
			}
			if !caster.Equal(v, back) {
				R.Violate("C14:amount-equal", fmt.Sprintf("Equal(%v, %v) is false after a round trip", v, back), fmt.Sprint(v))
			}
		})
		R.Cover("C14/amount-values")
	}
	if c.Batch == 0 {
		checkVal(nil)
		// decoded amounts are independent objects, zero included
		for _, enc := range [][]byte{{0, 0}, {0, 5}, {1, 5}, {0, 1, 0}} {
			a, _ := caster.Unmarshal(enc)
			want := new(big.Int).Set(a)
			a.Add(a, big.NewInt(77))
			b, _ := caster.Unmarshal(enc)
			if b == nil || b.Cmp(want) != 0 {
				R.Violate("C14:decode-shares-state", fmt.Sprintf("after an in-place update of a decoded amount, Unmarshal(%x) gives %v", enc, b), hex.EncodeToString(enc))
			}
			if b != nil {
				b.Sub(b, big.NewInt(5))
			}
			if z := caster.NewPopulated(); z == nil || z.Sign() != 0 {
				R.Violate("C14:decode-shares-state", "NewPopulated does not return a fresh zero", nil)
			}
		}
	}
	nv := 0
	for x := c.Batch; x < 1<<16; x += c.Batches {
		checkVal(big.NewInt(int64(x)))
		checkVal(big.NewInt(-int64(x)))
		nv += 2
	}
	r := c.Rand("c14")
	for i := 0; i < 2000; i++ {
		v := new(big.Int).SetBytes(r.Bytes(1 + r.Intn(120)))
		if r.Bool() {
			v.Neg(v)
		}
		checkVal(v)
		nv++
	}
	R.Eval(nv)
	// ---- structured values: library encoder vs reference encoder, size, determinism, round trip ----
	ns := c.Scale(40000, 400000) / c.Batches
	var directed []*refcodec.Token
	for i, t := range varintBoundaryTokens(c.Tier == "thorough") {
		if mine(c, i) {
			directed = append(directed, t)
		}
	}
	for i := 0; i < ns+len(directed); i++ {
		var t *refcodec.Token
		if i < len(directed) {
			t = directed[i]
			R.Cover("C14/varint-boundary-tokens")
		} else {
			t = genRefToken(r)
		}
		guard(R, "C14", "token-marshal", func() interface{} { return fmt.Sprintf("%+v", *t) }, func() {
			e := libTokenFromRef(t)
			got, err := e.Marshal()
			want := refcodec.EncodeToken(t)
			if err != nil || !bytes.Equal(got, want) {
				R.Violate("C14:token-encode", fmt.Sprintf("Marshal = %x (%v), documented wire format %x", got, err, want), fmt.Sprintf("%+v meta=%+v", *t, t.Meta))
				return
			}
			if e.Size() != len(got) {
				R.Violate("C14:token-size", fmt.Sprintf("Size() = %d, encoded length %d", e.Size(), len(got)), hex.EncodeToString(got))
			}
			again, _ := libTokenFromRef(t).Marshal()
			if !bytes.Equal(again, got) {
				R.Violate("C14:token-nondeterministic", "two encodings of equal values differ", hex.EncodeToString(got))
			}
			back := &esdt.ESDigitalToken{}
			if err := back.Unmarshal(got); err != nil || !libEqualsRef(back, t) {
				R.Violate("C14:token-roundtrip", fmt.Sprintf("Unmarshal(Marshal(x)) != x (err %v): %x", err, got), fmt.Sprintf("%+v meta=%+v", *t, t.Meta))
			}
			if !back.Equal(e) && !(e.Value == nil) {
				// generated Equal treats nil/empty byte fields alike
				_ = back
			}
			// decoded values are independent objects: updating one in place (as the built-in
			// functions do with balances) must not reach any other decode
			if back.Value != nil {
				back.Value.Add(back.Value, big.NewInt(12345))
				again2 := &esdt.ESDigitalToken{}
				if err := again2.Unmarshal(got); err != nil || !libEqualsRef(again2, t) {
					R.Violate("C14:decode-shares-state", fmt.Sprintf("after an in-place update of a decoded amount, decoding the same bytes %x again gives %v", got, again2.Value), hex.EncodeToString(got))
				}
				if again2.Value != nil {
					again2.Value.Sub(again2.Value, big.NewInt(999))
				}
			}
			// the buffer entry points: MarshalTo into a (zeroed) buffer longer than Size() writes
			// the encoding at the start and reports its length; MarshalToSizedBuffer fills exactly
			for _, extra := range []int{0, 1, 7, 64} {
				buf := make([]byte, len(got)+extra)
				n, err := e.MarshalTo(buf)
				if err != nil || n != len(got) || !bytes.Equal(buf[:n], got) {
					R.Violate("C14:marshalto", fmt.Sprintf("MarshalTo into a buffer of Size()+%d returned n=%d err=%v and buf[:n]=%x, Marshal() gives %x", extra, n, err, buf[:min(n, len(buf))], got), hex.EncodeToString(got))
				}
				// a reused (not zeroed) buffer, as a pooled buffer or a long-lived proto.Buffer hands over:
				// every one of the n bytes is written
				for _, fill := range []byte{0xff, 0x01, 0x5a} {
					dirty := bytes.Repeat([]byte{fill}, len(got)+extra)
					n, err := e.MarshalTo(dirty)
					if err != nil || n != len(got) || !bytes.Equal(dirty[:n], got) {
						R.Violate("C14:marshalto-dirty-buffer", fmt.Sprintf("MarshalTo into a buffer of Size()+%d pre-filled with %02x returned n=%d err=%v and buf[:n]=%x, Marshal() gives %x", extra, fill, n, err, dirty[:min(n, len(dirty))], got), hex.EncodeToString(got))
						break
					}
				}
			}
			{
				dirty := bytes.Repeat([]byte{0xa7}, len(got))
				if n, err := e.MarshalToSizedBuffer(dirty); err != nil || n != len(got) || !bytes.Equal(dirty, got) {
					R.Violate("C14:marshalto-dirty-buffer", fmt.Sprintf("MarshalToSizedBuffer into a pre-filled buffer returned n=%d err=%v buf=%x, Marshal() gives %x", n, err, dirty, got), hex.EncodeToString(got))
				}
			}
			{
				buf := make([]byte, len(got))
				n, err := e.MarshalToSizedBuffer(buf)
				if err != nil || n != len(got) || !bytes.Equal(buf, got) {
					R.Violate("C14:marshaltosized", fmt.Sprintf("MarshalToSizedBuffer returned n=%d err=%v buf=%x, Marshal() gives %x", n, err, buf, got), hex.EncodeToString(got))
				}
				if t.Meta != nil {
					mg, _ := e.TokenMetaData.Marshal()
					mb := make([]byte, len(mg)+5)
					if n, err := e.TokenMetaData.MarshalTo(mb); err != nil || n != len(mg) || !bytes.Equal(mb[:n], mg) {
						R.Violate("C14:marshalto", "MetaData.MarshalTo into a longer buffer differs from Marshal()", hex.EncodeToString(mg))
					}
					ro := &esdt.ESDTRoles{Roles: t.Meta.URIs}
					rg, _ := ro.Marshal()
					rb := make([]byte, len(rg)+5)
					if n, err := ro.MarshalTo(rb); err != nil || n != len(rg) || !bytes.Equal(rb[:n], rg) {
						R.Violate("C14:marshalto", "ESDTRoles.MarshalTo into a longer buffer differs from Marshal()", hex.EncodeToString(rg))
					}
				}
			}
			// the reference decoder reads the library's bytes
			if rt, err := refcodec.DecodeToken(got); err != nil || !libEqualsRef(e, rt) {
				R.Violate("C14:token-ref-decode", fmt.Sprintf("reference decoder disagrees on %x", got), hex.EncodeToString(got))
			}
			// metadata alone
			if t.Meta != nil {
				mg, err := e.TokenMetaData.Marshal()
				if err != nil || !bytes.Equal(mg, refcodec.EncodeMeta(t.Meta)) || e.TokenMetaData.Size() != len(mg) {
					R.Violate("C14:meta-encode", fmt.Sprintf("MetaData.Marshal = %x, documented %x", mg, refcodec.EncodeMeta(t.Meta)), fmt.Sprintf("%+v", *t.Meta))
				}
				mb := &esdt.MetaData{}
				if err := mb.Unmarshal(mg); err != nil || !mb.Equal(e.TokenMetaData) {
					R.Violate("C14:meta-roundtrip", "MetaData does not round-trip", hex.EncodeToString(mg))
				}
				// roles: reuse the URIs as a role list
				ro := &esdt.ESDTRoles{Roles: t.Meta.URIs}
				rg, err := ro.Marshal()
				if err != nil || !bytes.Equal(rg, refcodec.EncodeRoles(t.Meta.URIs)) || ro.Size() != len(rg) {
					R.Violate("C14:roles-encode", fmt.Sprintf("ESDTRoles.Marshal = %x, documented %x", rg, refcodec.EncodeRoles(t.Meta.URIs)), fmt.Sprint(t.Meta.URIs))
				}
				rb := &esdt.ESDTRoles{}
				if err := rb.Unmarshal(rg); err != nil || len(rb.Roles) != len(t.Meta.URIs) {
					R.Violate("C14:roles-roundtrip", "ESDTRoles does not round-trip", hex.EncodeToString(rg))
				} else {
					for j := range rb.Roles {
						if !eqB(rb.Roles[j], t.Meta.URIs[j]) {
							R.Violate("C14:roles-roundtrip", "ESDTRoles does not round-trip", hex.EncodeToString(rg))
						}
					}
				}
			}
			// encoders keep no state between calls: the amount is updated IN PLACE (as the built-in
			// functions do with balances) after a Size() / before the next Marshal(), in every order
			if e.Value != nil {
				for _, d := range []int64{1, -3, 1 << 40} {
					_ = e.Size()
					e.Value.Add(e.Value, big.NewInt(d))
					t2 := *t
					t2.Value = new(big.Int).Set(e.Value)
					w2 := refcodec.EncodeToken(&t2)
					g2, err := e.Marshal()
					if err != nil || !bytes.Equal(g2, w2) {
						R.Violate("C14:stale-encoder-state", fmt.Sprintf("after Size() and an in-place update of the amount to %v, Marshal = %x, documented %x", e.Value, g2, w2), fmt.Sprintf("%+v", t2))
						break
					}
					if e.Size() != len(w2) {
						R.Violate("C14:stale-encoder-state", fmt.Sprintf("after an in-place update of the amount to %v, Size() = %d, encoded length %d", e.Value, e.Size(), len(w2)), fmt.Sprintf("%+v", t2))
						break
					}
					e.Value.Lsh(e.Value, 9)
					t2.Value = new(big.Int).Set(e.Value)
					w3 := refcodec.EncodeToken(&t2)
					if sz := e.Size(); sz != len(w3) {
						R.Violate("C14:stale-encoder-state", fmt.Sprintf("after Marshal() and an in-place update of the amount to %v, Size() = %d, encoded length %d", e.Value, sz, len(w3)), fmt.Sprintf("%+v", t2))
						break
					}
					buf := make([]byte, len(w3))
					if n, err := e.MarshalToSizedBuffer(buf); err != nil || n != len(w3) || !bytes.Equal(buf, w3) {
						R.Violate("C14:stale-encoder-state", fmt.Sprintf("after Size() twice and an in-place update, MarshalToSizedBuffer = %x, documented %x", buf, w3), fmt.Sprintf("%+v", t2))
						break
					}
				}
				R.Cover("C14/in-place-update-between-size-and-marshal")
			}
			R.Distinct(harness.Hash64("tok", string(got)))
			if i == 0 {
				sample(c, map[string]interface{}{"value": fmt.Sprintf("%+v", *t), "encoding": hex.EncodeToString(got)})
			}
			// mutated valid encodings through the decoders: never a panic; a success is stable
			for k := 0; k < 3; k++ {
				mut := append([]byte{}, got...)
				if len(mut) == 0 {
					break
				}
				switch r.Intn(4) {
				case 0:
					mut[r.Intn(len(mut))] ^= 1 << uint(r.Intn(8))
				case 1:
					mut = mut[:r.Intn(len(mut))]
				case 2:
					mut[r.Intn(len(mut))] = 0xff // length / varint inflation
				default:
					p := r.Intn(len(mut))
					mut = append(mut[:p:p], append(r.Bytes(1+r.Intn(3)), mut[p:]...)...)
				}
				decodeAnything(R, mut)
				R.Cover("C14/mutated-decodes")
			}
		})
		R.Cover("C14/structured")
	}
	R.Eval(ns)
	// ---- structure-aware hostile lengths ----
	if c.Batch == 0 {
		validTok, _ := libTokenFromRef(&refcodec.Token{Type: 1, Value: big.NewInt(5), Properties: []byte{1, 0}, Meta: &refcodec.MetaData{Nonce: 3, Name: []byte("n"), URIs: [][]byte{[]byte("u")}}}).Marshal()
		hl := hostileLengthInputs(validTok)
		for _, in := range hl {
			decodeAnything(R, in)
		}
		R.CoverN("C14/hostile-length-decodes", int64(len(hl)))
		R.Eval(len(hl))
	}
	// ---- decode of all byte strings up to length L ----
	nd := 0
	for n := 0; n <= L; n++ {
		max := 1 << (8 * uint(n))
		for x := c.Batch; x < max; x += c.Batches {
			buf := make([]byte, n)
			for i := 0; i < n; i++ {
				buf[i] = byte(x >> (8 * uint(n-1-i)))
			}
			decodeAnything(R, buf)
			nd++
		}
	}
	R.CoverN("C14/small-decodes", int64(nd))
	R.Eval(nd)
}

// hostileLengthInputs: every tag (fields 1..8 x wire types 0,1,2,5) followed by varints near the
// int / int32 / int64 boundaries, alone, nested in the metadata field and appended to a valid
// encoding: the decoders' length arithmetic must not wrap.
func hostileLengthInputs(valid []byte) [][]byte {
	varint := func(v uint64) []byte {
		var b []byte
		for v >= 0x80 {
			b = append(b, byte(v)|0x80)
			v >>= 7
		}
		return append(b, byte(v))
	}
	lens := []uint64{0, 1, 127, 128, 1<<31 - 1, 1 << 31, 1<<32 - 1, 1 << 32, 1<<62 - 1, 1 << 62, 1<<63 - 1, 1 << 63, 1<<63 + 1, ^uint64(0) - 1, ^uint64(0)}
	// lengths just below 2^63: header + length fits an int, offset + header + length does not
	for k := uint64(1); k <= 48; k++ {
		lens = append(lens, 1<<63-1-k)
	}
	validMeta := []byte{0x08, 0x03, 0x12, 0x01, 'n', 0x2a, 0x01, 'h'}
	validRoles := []byte{0x0a, 0x01, 'A', 0x0a, 0x02, 'B', 'C'}
	var out [][]byte
	for field := 1; field <= 9; field++ {
		for _, wt := range []int{0, 1, 2, 3, 4, 5, 6, 7} {
			tag := varint(uint64(field<<3 | wt))
			for _, l := range lens {
				in := append(append([]byte{}, tag...), varint(l)...)
				// behind valid prefixes of each of the three messages (offset > 0), plain and nested
				for _, pre := range [][]byte{validMeta, validRoles, {0x08, 0x07}, validMeta[:2]} {
					pin := append(append([]byte{}, pre...), in...)
					out = append(out, pin, append(append([]byte{0x22}, varint(uint64(len(pin)))...), pin...))
				}
				// the same entry inside an (unknown) group opened by a start-group tag, closed or not,
				// and inside two nested groups
				for _, gf := range []int{9, field} {
					sg, eg := varint(uint64(gf<<3|3)), varint(uint64(gf<<3|4))
					g1 := append(append([]byte{}, sg...), in...)
					out = append(out, g1, append(append([]byte{}, g1...), eg...), append(append(append([]byte{}, sg...), g1...), eg...), append(append([]byte{}, valid...), g1...))
				}
				out = append(out, in, append(append([]byte{}, in...), 1, 2, 3), append(append([]byte{}, valid...), in...))
				// nested in field 4 (metadata) of the token message
				nested := append([]byte{0x22}, varint(uint64(len(in)))...)
				out = append(out, append(nested, in...))
				// overlong varint for the same value (11 bytes) and an unterminated one
				out = append(out, append(append([]byte{}, tag...), 0xff, 0xff, 0xff, 0xff, 0xff, 0xff, 0xff, 0xff, 0xff, 0xff, 0x01), append(append([]byte{}, tag...), 0xff, 0xff, 0xff))
			}
		}
	}
	// deep nesting of groups and of the embedded metadata message
	for _, depth := range []int{1, 10, 100, 1000, 10000} {
		var g []byte
		for i := 0; i < depth; i++ {
			g = append(g, 0x4b)
		}
		out = append(out, g, append(append([]byte{}, g...), 0x0a, 0xff, 0xff, 0xff, 0xff, 0xff, 0xff, 0xff, 0xff, 0x7f))
	}
	return out
}

func decodeAnything(R *harness.Reporter, buf []byte) {
	guard(R, "C14", "decode", func() interface{} { return hex.EncodeToString(buf) }, func() {
		t := &esdt.ESDigitalToken{}
		if err := t.Unmarshal(buf); err == nil {
			enc, err := t.Marshal()
			if err != nil {
				R.Violate("C14:decode-unstable", fmt.Sprintf("decoded value of %x cannot be encoded: %v", buf, err), hex.EncodeToString(buf))
			} else {
				t2 := &esdt.ESDigitalToken{}
				if err := t2.Unmarshal(enc); err != nil || !t2.Equal(t) {
					R.Violate("C14:decode-unstable", fmt.Sprintf("decode(%x) is not stable under re-encode -> decode", buf), hex.EncodeToString(buf))
				}
				R.Cover("C14/decode-successes")
			}
		}
		m := &esdt.MetaData{}
		if err := m.Unmarshal(buf); err == nil {
			enc, _ := m.Marshal()
			m2 := &esdt.MetaData{}
			if err := m2.Unmarshal(enc); err != nil || !m2.Equal(m) {
				R.Violate("C14:decode-unstable", fmt.Sprintf("MetaData decode(%x) is not stable", buf), hex.EncodeToString(buf))
			}
		}
		ro := &esdt.ESDTRoles{}
		if err := ro.Unmarshal(buf); err == nil {
			enc, _ := ro.Marshal()
			r2 := &esdt.ESDTRoles{}
			if err := r2.Unmarshal(enc); err != nil || !r2.Equal(ro) {
				R.Violate("C14:decode-unstable", fmt.Sprintf("ESDTRoles decode(%x) is not stable", buf), hex.EncodeToString(buf))
			}
		}
	})
}

// =============================================================================================
// C12 — parsers are total and inverse to the builders

func init() {
	harness.Register(&harness.Property{
		ID: "C12", Level: "exploration", Exhaustive: true,
		Rule:             "exhaustive sub-domain: ALL strings over {x,@,a,A,1,space} up to length 7 (quick) / 8 (thorough, 2.0 M) through the four parsers under a panic monitor, with parse∘build = id and build∘parse = canonical checks; plus generated argument lists (empty arguments, odd-length / upper-case hex) through the tx-data builder and the built-in functions' own encoder; the ESDT-transfer parser on count residues of 3n+c mod 2^64, counts wider than 64 bits, payloads decoding to no value, sender == receiver and != ; deploy data and storage-update lists through encode -> parse. Non-trivial = the parser accepts; distinct = distinct accepted inputs + the pipeline tx data -> library parser -> built-in function (given exactly the parser's slices) -> its encoder -> library parser with empty arguments at every position and 256+ entry multi-transfers.",
		Assumptions:      []string{"function names are non-empty and '@'-free, storage-update lists start with a non-empty offset (the wire format cannot represent others)"},
		Batches:          tierN(8, 16),
		DeathIsViolation: true,
		MemLimitMB:       6144,
		Floors:           map[string]int64{"C12/strings": 300000, "C12/roundtrips": 20000, "C12/xfer-parser-hostile": 3000},
		Run:              runC12,
	})
}

func runC12(c *harness.Ctx) {
	R := c.R
	cp := parsers.NewCallArgsParser()
	dp := parsers.NewDeployArgsParser()
	sp := parsers.NewStorageUpdatesParser()
	xp, _ := parsers.NewESDTTransferParser(world.PlainCodec{})
	xpJSON, _ := parsers.NewESDTTransferParser(&mock.MarshalizerMock{})
	alpha := []byte{'x', '@', 'a', 'A', '1', ' '}
	maxLen := c.Scale(7, 8)
	count := 0
	var rec func(b []byte, depth int)
	idx := 0
	checkString := func(s string) {
		guard(R, "C12", "call-parser", func() interface{} { return s }, func() {
			f, args, err := cp.ParseData(s)
			if err == nil {
				R.Cover("C12/call-accepted")
				R.Distinct(harness.Hash64("call", s))
				// build∘parse = canonical (hex lower-cased)
				b := txDataBuilder.NewBuilder().Func(f)
				for _, a := range args {
					b.Bytes(a)
				}
				canon := canonicalData(s)
				if b.ToString() != canon {
					R.Violate("C12:build-parse-not-canonical", fmt.Sprintf("build(parse(%q)) = %q, canonical form %q", s, b.ToString(), canon), s)
				}
				// and the own tokenizer agrees
				tf, ta, terr := node.Tokenize(s)
				if terr != nil || tf != f || !argsEqual(ta, args) {
					R.Violate("C12:call-parser-differs", fmt.Sprintf("ParseData(%q) = (%q, %d args) but the reference tokenizer says (%q, %d args, %v)", s, f, len(args), tf, len(ta), terr), s)
				}
			} else if _, _, terr := node.Tokenize(s); terr == nil {
				R.Violate("C12:call-parser-rejects-valid", fmt.Sprintf("ParseData(%q) fails: %v", s, err), s)
			}
		})
		guard(R, "C12", "deploy-parser", func() interface{} { return s }, func() {
			if d, err := dp.ParseData(s); err == nil {
				R.Cover("C12/deploy-accepted")
				if d == nil {
					R.Violate("C12:deploy-nil-result", "deploy parser returned neither result nor error", s)
				}
			}
		})
		guard(R, "C12", "storage-parser", func() interface{} { return s }, func() {
			if ups, err := sp.GetStorageUpdates(s); err == nil {
				R.Cover("C12/storage-accepted")
				if len(ups) > 0 && len(ups[0].Offset) > 0 {
					back := sp.CreateDataFromStorageUpdate(ups)
					ups2, err2 := sp.GetStorageUpdates(back)
					if err2 != nil || len(ups2) != len(ups) {
						R.Violate("C12:storage-roundtrip", fmt.Sprintf("storage updates of %q do not survive encode -> parse (%q)", s, back), s)
					} else {
						for i := range ups {
							if !bytes.Equal(ups[i].Offset, ups2[i].Offset) || !bytes.Equal(ups[i].Data, ups2[i].Data) {
								R.Violate("C12:storage-roundtrip", fmt.Sprintf("storage updates of %q do not survive encode -> parse", s), s)
							}
						}
					}
				}
			}
		})
		R.Cover("C12/strings")
	}
	rec = func(b []byte, depth int) {
		if idx%c.Batches == c.Batch {
			checkString(string(b))
			count++
		}
		idx++
		if depth == maxLen {
			return
		}
		for _, a := range alpha {
			rec(append(b, a), depth+1)
		}
	}
	rec(nil, 0)
	R.Eval(count)
	sample(c, "fn@0a@@A1 -> call-arguments parser, deploy parser, storage-update parser, re-built and compared")

	// ---- generated argument lists through both builders ----
	r := c.Rand("c12")
	names := []string{"f", "ESDTTransfer", "a b", "x.y-z", "ÿ", "0", "deadbeef", "A", "FnWithUPPER"}
	nrt := c.Scale(40000, 400000) / c.Batches
	for i := 0; i < nrt; i++ {
		fn := names[r.Intn(len(names))]
		var args [][]byte
		for k := 0; k < r.Intn(7); k++ {
			switch r.Intn(5) {
			case 0:
				args = append(args, []byte{})
			case 1:
				args = append(args, []byte{0})
			case 2:
				args = append(args, []byte{0xAB, 0xCD, 0xEF})
			default:
				args = append(args, r.Bytes(r.Intn(12)))
			}
		}
		guard(R, "C12", "roundtrip", func() interface{} { return node.BuildData(fn, args) }, func() {
			b := txDataBuilder.NewBuilder().Func(fn)
			// a second, independent builder is filled alongside (an inner message prepared while the
			// outer one is still open): builders share nothing
			other := txDataBuilder.NewBuilder().Func("inner")
			var otherArgs [][]byte
			for k, a := range args {
				b.Bytes(a)
				oa := []byte{0x5a, byte(k)}
				other.Bytes(oa)
				otherArgs = append(otherArgs, oa)
			}
			s := b.ToString()
			if s != node.BuildData(fn, args) {
				R.Violate("C12:builder-format", fmt.Sprintf("builder produced %q, format says %q", s, node.BuildData(fn, args)), s)
			}
			if os := other.ToString(); os != node.BuildData("inner", otherArgs) {
				R.Violate("C12:builder-format", fmt.Sprintf("a second builder filled alongside produced %q, format says %q", os, node.BuildData("inner", otherArgs)), os)
			}
			for _, variant := range []string{s, upperHex(s, fn)} {
				f, pa, err := cp.ParseData(variant)
				if err != nil || f != fn || !argsEqual(pa, args) {
					R.Violate("C12:parse-build-not-identity", fmt.Sprintf("ParseData(%q) = (%q, %d args, %v), built from (%q, %d args)", variant, f, len(pa), err, fn, len(args)), variant)
				}
			}
			// deploy data: code@vmtype@metadata@args
			if len(args) >= 3 && len(args[1]) > 0 {
				ds := hex.EncodeToString(args[0]) + "@" + hex.EncodeToString(args[1]) + "@" + hex.EncodeToString(args[2])
				for _, a := range args[3:] {
					ds += "@" + hex.EncodeToString(a)
				}
				if len(args[0]) > 0 {
					d, err := dp.ParseData(ds)
					if err != nil || !bytes.Equal(d.Code, args[0]) || !bytes.Equal(d.VMType, args[1]) || d.CodeMetadata != vmcommon.CodeMetadataFromBytes(args[2]) || !argsEqual(d.Arguments, args[3:]) {
						R.Violate("C12:deploy-roundtrip", fmt.Sprintf("deploy data %q does not parse back to its parts (%v)", ds, err), ds)
					}
					R.Cover("C12/deploy-roundtrips")
				}
			}
			// storage updates
			if len(args) >= 2 && len(args[0]) > 0 {
				var ups []*vmcommon.StorageUpdate
				for k := 0; k+1 < len(args); k += 2 {
					ups = append(ups, &vmcommon.StorageUpdate{Offset: args[k], Data: args[k+1]})
				}
				sd := sp.CreateDataFromStorageUpdate(ups)
				back, err := sp.GetStorageUpdates(sd)
				ok := err == nil && len(back) == len(ups)
				if ok {
					for k := range ups {
						if !bytes.Equal(back[k].Offset, ups[k].Offset) || !bytes.Equal(back[k].Data, ups[k].Data) {
							ok = false
						}
					}
				}
				if !ok {
					R.Violate("C12:storage-roundtrip", fmt.Sprintf("storage-update list does not survive encode -> parse: %q (%v)", sd, err), sd)
				}
				R.Cover("C12/storage-roundtrips")
			}
		})
		R.Cover("C12/roundtrips")
	}
	R.Eval(nrt)

	// ---- every appender of the tx-data builder: what it appends parses back to the value given ----
	if c.Batch == 0 {
		expectArgs := func(what string, data string, fn string, want [][]byte) {
			f, args, err := cp.ParseData(data)
			if err != nil || f != fn || !argsEqual(args, want) {
				R.Violate("C12:builder-appender:"+what, fmt.Sprintf("%s built %q which parses to (%q, %x, %v); the values given were (%q, %x)", what, data, f, args, err, fn, want), data)
			}
			R.Cover("C12/builder-appenders")
		}
		for v := 0; v < 256; v++ {
			expectArgs("Byte", txDataBuilder.NewBuilder().Func("f").Byte(byte(v)).ToString(), "f", [][]byte{{byte(v)}})
			expectArgs("IssueESDT", txDataBuilder.NewBuilder().IssueESDT("tok", "TCK", int64(v), byte(v)).ToString(), "issue", [][]byte{[]byte("tok"), []byte("TCK"), big.NewInt(int64(v)).Bytes(), {byte(v)}})
		}
		ints := []int64{0, 1, 127, 128, 255, 256, 65535, 65536, 1<<31 - 1, 1 << 31, 1<<32 - 1, 1 << 32, 1<<62 + 3, 1<<63 - 1}
		for _, v := range ints {
			expectArgs("Int64", txDataBuilder.NewBuilder().Func("f").Int64(v).ToString(), "f", [][]byte{big.NewInt(v).Bytes()})
			expectArgs("Int", txDataBuilder.NewBuilder().Func("f").Int(int(v)).ToString(), "f", [][]byte{big.NewInt(v).Bytes()})
			expectArgs("BigInt", txDataBuilder.NewBuilder().Func("f").BigInt(new(big.Int).Lsh(big.NewInt(v), 70)).ToString(), "f", [][]byte{new(big.Int).Lsh(big.NewInt(v), 70).Bytes()})
			expectArgs("TransferESDT", txDataBuilder.NewBuilder().TransferESDT("TOK-1", v).ToString(), FTransfer, [][]byte{[]byte("TOK-1"), big.NewInt(v).Bytes()})
			expectArgs("TransferESDTNFT", txDataBuilder.NewBuilder().TransferESDTNFT("TOK-1", int(v&0xffff), v).ToString(), FNFTXfer, [][]byte{[]byte("TOK-1"), big.NewInt(v & 0xffff).Bytes(), big.NewInt(v).Bytes()})
			expectArgs("BurnESDT", txDataBuilder.NewBuilder().BurnESDT("TOK-1", v).ToString(), FBurn, [][]byte{[]byte("TOK-1"), big.NewInt(v).Bytes()})
		}
		for _, str := range []string{"", "a", "true", "with space", "\x00\xff", "ÿ@"} {
			expectArgs("Str", txDataBuilder.NewBuilder().Func("f").Str(str).ToString(), "f", [][]byte{[]byte(str)})
			expectArgs("Bytes", txDataBuilder.NewBuilder().Func("f").Bytes([]byte(str)).Bytes(nil).ToString(), "f", [][]byte{[]byte(str), {}})
		}
		for _, bv := range []bool{true, false} {
			w := []byte("false")
			if bv {
				w = []byte("true")
			}
			expectArgs("Bool", txDataBuilder.NewBuilder().Func("f").Bool(bv).ToString(), "f", [][]byte{w})
			bb := txDataBuilder.NewBuilder().Func("f").CanFreeze(bv).CanWipe(bv).CanPause(bv).CanMint(bv).CanBurn(bv).CanTransferNFTCreateRole(bv).CanAddSpecialRoles(bv)
			expectArgs("Can*", bb.ToString(), "f", [][]byte{[]byte("canFreeze"), w, []byte("canWipe"), w, []byte("canPause"), w, []byte("canMint"), w, []byte("canBurn"), w, []byte("canTransferNFTCreateRole"), w, []byte("canAddSpecialRoles"), w})
		}
		expectArgs("True/False", txDataBuilder.NewBuilder().Func("f").True().False().ToString(), "f", [][]byte{[]byte("true"), []byte("false")})
		// Clear / GetLast / SetLast / ToBytes
		b := txDataBuilder.NewBuilder().Func("g").Byte(1).Byte(2)
		if b.GetLast() != "02" {
			R.Violate("C12:builder-appender:GetLast", "GetLast does not return the last element: "+b.GetLast(), nil)
		}
		b.SetLast("0a0b")
		expectArgs("SetLast", string(b.ToBytes()), "g", [][]byte{{1}, {10, 11}})
		expectArgs("Clear", b.Clear().Func("h").Byte(0).ToString(), "h", [][]byte{{0}})
	}

	// ---- ESDT-transfer parser on hostile inputs ----
	residues := []uint64{0, 1, 2, 3, 5, 0xAAAAAAAAAAAAAAAA, 0xAAAAAAAAAAAAAAAB, 0xAAAAAAAAAAAAAAAC, 0x8000000000000001, 0xFFFFFFFFFFFFFFFE, 6148914691236517205, 6148914691236517206, 12297829382473034410, 12297829382473034411, 1 << 62, 1<<63 - 1, 1 << 63, ^uint64(0), ^uint64(0) - 1, ^uint64(0) / 3, ^uint64(0)/3 + 1, ^uint64(0)/3 + 2}
	var counts [][]byte
	for _, v := range residues {
		counts = append(counts, gen.U64(v))
	}
	counts = append(counts, append([]byte{1}, make([]byte, 8)...), append([]byte{1}, gen.U64(6148914691236517206)...), append([]byte{0, 0}, 2), []byte{}, bytes.Repeat([]byte{0xff}, 20))
	validTok, _ := libTokenFromRef(&refcodec.Token{Type: 1, Value: big.NewInt(5), Meta: &refcodec.MetaData{Nonce: 3, Name: []byte("n")}}).Marshal()
	noValue := refcodec.EncodeMeta(&refcodec.MetaData{Nonce: 1}) // decodes as a token without the amount field? (field 1 varint only)
	payloads := [][]byte{{}, {0}, validTok, noValue, {0x12, 0x01, 0x00}, {0x12, 0x00}, {0x08, 0x01}, r.Bytes(5), {0x22, 0x00}, bytes.Repeat([]byte{0x12}, 9)}
	addrA, addrB := gen.UserAddr(0, 0), gen.UserAddr(1, 1)
	nh := 0
	for _, fn := range []string{FTransfer, FNFTXfer, FMulti, "Other", ""} {
		for _, cnt := range counts {
			for _, pl := range payloads {
				for nargs := 0; nargs <= 9; nargs++ {
					for _, same := range []bool{true, false} {
						if nh%c.Batches != c.Batch {
							nh++
							continue
						}
						nh++
						args := make([][]byte, nargs)
						start := 1
						if same {
							start = 2
						}
						for k := range args {
							switch (k - start + 300) % 3 {
							case 0:
								args[k] = []byte("TOK-aabbcc")
							case 1:
								args[k] = []byte{byte((k / 3) % 2 * (1 + k))} // nonce 0 / non-zero alternating
								if nh%2 == 0 {
									args[k] = []byte{1}
								}
							default:
								args[k] = pl
							}
						}
						if nargs > 0 {
							args[0] = cnt
						}
						if nargs > 1 && same {
							args[0] = addrB
							args[1] = cnt
						}
						snd, rcv := addrA, addrB
						if same {
							rcv = addrA
						}
						guard(R, "C12", "esdt-transfer-parser:"+panicKind(args), func() interface{} { return node.BuildData(fn, args) }, func() {
							rep, err := xp.ParseESDTTransfers(snd, rcv, fn, args)
							if (rep == nil) == (err == nil) {
								R.Violate("C12:xfer-parser-shape", "ESDT-transfer parser returned neither (result) nor (error)", node.BuildData(fn, args))
							}
							if err == nil {
								R.Cover("C12/xfer-parser-accepted")
								for _, t := range rep.ESDTTransfers {
									if t == nil || t.ESDTValue == nil {
										R.Violate("C12:xfer-parser-nil-entry", "accepted report holds a nil transfer / value", node.BuildData(fn, args))
									}
								}
							}
						})
						R.Cover("C12/xfer-parser-hostile")
					}
				}
			}
		}
	}
	R.Eval(nh / c.Batches)

	// ---- ESDT-transfer parser on well-formed calls: its report equals an independent reading ----
	nonces := []uint64{0, 1, 2, 255, 256, 1<<32 - 1, 1 << 32, 1<<63 - 1, 1 << 63, 1<<63 + 1, ^uint64(0) - 1, ^uint64(0)}
	values := []*big.Int{big.NewInt(0), big.NewInt(1), big.NewInt(255), gen.Pow2(63), gen.Pow2(64), new(big.Int).Add(gen.Pow2(64), big.NewInt(1)), gen.Pow2(200)}
	calls := [][][]byte{nil, {[]byte("f")}, {[]byte("f"), {}}, {[]byte("fn"), []byte("a1"), {0}, {}}}
	nwf := 0
	// sender / receiver pairs: unrelated addresses, and different addresses that are "almost equal" in
	// ways a comparison other than byte equality would confuse (letter case, bytes that are not
	// valid UTF-8, only the shard byte differing, only the first byte differing, one all zero)
	like := func(mod func(a []byte)) [2][]byte {
		a := bytes.Repeat([]byte{'A'}, 32)
		b := append([]byte{}, a...)
		mod(b)
		return [2][]byte{a, b}
	}
	addrPairs := [][2][]byte{{addrA, addrB}, {addrA, addrB},
		like(func(b []byte) { b[31] = 'a' }), like(func(b []byte) { b[0] = 'a' }), like(func(b []byte) { b[31] = 'B' }),
		{bytes.Repeat([]byte{0x80}, 32), append(bytes.Repeat([]byte{0x80}, 31), 0x81)}, {bytes.Repeat([]byte{0xff}, 32), append(bytes.Repeat([]byte{0xff}, 31), 0xfe)},
		{append(bytes.Repeat([]byte{0xC3}, 31), 0x89), append(bytes.Repeat([]byte{0xC3}, 31), 0xA9)}, // É / é in UTF-8 at the end
		{make([]byte, 32), append(make([]byte, 31), 1)}, {gen.UserAddr(3, 0), gen.UserAddr(3, 1)}}
	for wi := 0; wi < c.Scale(6000, 60000)/c.Batches; wi++ {
		addrA, addrB := addrPairs[wi%len(addrPairs)][0], addrPairs[wi%len(addrPairs)][1]
		if wi%len(addrPairs) >= 2 {
			R.Cover("C12/xfer-parser-lookalike-addresses")
		}
		fn := []string{FTransfer, FNFTXfer, FMulti}[r.Intn(3)]
		atSender := r.Bool()
		call := calls[r.Intn(len(calls))]
		type tr struct {
			id    []byte
			nonce uint64
			val   *big.Int
		}
		var trs []tr
		k := 1
		if fn == FMulti {
			k = 1 + r.Intn(4)
		}
		for j := 0; j < k; j++ {
			n := nonces[r.Intn(len(nonces))]
			if fn == FTransfer {
				n = 0
			}
			trs = append(trs, tr{id: []byte(fmt.Sprintf("TOK-%06x", r.Intn(3))), nonce: n, val: values[r.Intn(len(values))]})
		}
		// every third case runs through a parser built on the JSON marshaller (the one the
		// repository's own mocks provide: it decodes INTO whatever the target already points to)
		useJSON := wi%3 == 2
		payload := func(t tr) []byte {
			e := libTokenFromRef(&refcodec.Token{Type: 1, Value: t.val, Meta: &refcodec.MetaData{Nonce: t.nonce, Name: []byte("n"), Hash: []byte("h")}})
			if useJSON {
				b, _ := json.Marshal(e)
				return b
			}
			b, _ := e.Marshal()
			return b
		}
		snd, rcv := addrA, addrB
		var args [][]byte
		switch fn {
		case FTransfer:
			args = [][]byte{trs[0].id, trs[0].val.Bytes()}
			atSender = false
		case FNFTXfer:
			if atSender {
				rcv = snd
				args = [][]byte{trs[0].id, gen.U64(trs[0].nonce), trs[0].val.Bytes(), addrB}
			} else {
				args = [][]byte{trs[0].id, gen.U64(trs[0].nonce), trs[0].val.Bytes(), payload(trs[0])}
			}
		default:
			if atSender {
				rcv = snd
				args = [][]byte{addrB, gen.Big(int64(k))}
			} else {
				args = [][]byte{gen.Big(int64(k))}
			}
			for _, t := range trs {
				switch {
				case t.nonce == 0:
					args = append(args, t.id, []byte{0}, t.val.Bytes())
				case atSender:
					args = append(args, t.id, gen.U64(t.nonce), t.val.Bytes())
				default:
					args = append(args, t.id, gen.U64(t.nonce), payload(t))
				}
			}
		}
		args = append(args, call...)
		guard(R, "C12", "esdt-transfer-parser:well-formed", func() interface{} { return node.BuildData(fn, args) }, func() {
			parser := xp
			if useJSON {
				parser = xpJSON
				R.Cover("C12/xfer-parser-well-formed-json-marshaller")
			}
			rep, err := parser.ParseESDTTransfers(snd, rcv, fn, args)
			if err != nil || rep == nil {
				R.Violate("C12:xfer-parser-rejects-well-formed:"+fn, fmt.Sprintf("the ESDT-transfer parser rejects a well-formed %s call: %v", fn, err), node.BuildData(fn, args))
				return
			}
			bad := ""
			if len(rep.ESDTTransfers) != len(trs) {
				bad = fmt.Sprintf("%d transfers reported, %d listed", len(rep.ESDTTransfers), len(trs))
			} else {
				for j, t := range trs {
					g := rep.ESDTTransfers[j]
					wantType := uint32(vmcommon.Fungible)
					if t.nonce > 0 || fn == FNFTXfer {
						wantType = uint32(vmcommon.NonFungible)
					}
					if g == nil || !bytes.Equal(g.ESDTTokenName, t.id) || g.ESDTTokenNonce != t.nonce || g.ESDTValue == nil || g.ESDTValue.Cmp(t.val) != 0 || g.ESDTTokenType != wantType {
						bad = fmt.Sprintf("transfer %d reported as %+v, listed (%q, nonce %d, value %s, type %d)", j, g, t.id, t.nonce, t.val, wantType)
					}
				}
			}
			if !bytes.Equal(rep.RcvAddr, addrB) {
				bad = fmt.Sprintf("receiver %x reported", rep.RcvAddr)
			}
			wantFn, wantArgs := "", [][]byte{}
			if len(call) > 0 {
				wantFn, wantArgs = string(call[0]), call[1:]
			}
			if rep.CallFunction != wantFn || !argsEqual(rep.CallArgs, wantArgs) {
				bad = fmt.Sprintf("attached call (%q, %d args) reported, (%q, %d args) carried", rep.CallFunction, len(rep.CallArgs), wantFn, len(wantArgs))
			}
			if bad != "" {
				R.Violate("C12:xfer-parser-report:"+fn, "the ESDT-transfer parser's report differs from the call: "+bad, node.BuildData(fn, args))
			}
		})
		R.Cover("C12/xfer-parser-well-formed")
		nwf++
	}
	R.Eval(nwf)

	// ---- the whole pipeline: tx data -> library parser -> built-in function -> its own message
	// encoder -> library parser. The arguments the function receives are exactly the slices the
	// parser returned (empty arguments in whatever representation it chose) ----
	if c.Batch == 1%c.Batches {
		extrasList := [][][]byte{
			{[]byte("fn")}, {[]byte("fn"), {}}, {[]byte("fn"), {}, {}}, {[]byte("fn"), {}, []byte("x"), {}}, {[]byte("fn"), []byte("x"), {}, []byte("y")},
			{[]byte("fn"), {0}, {}, {0, 0}}, {[]byte("g"), {}}, {[]byte("fn"), {}, {}, {}, {}, []byte("z")},
		}
		for xi, extras := range extrasList {
			for form := 0; form < 5; form++ {
				s := NewScn(c.Rand("c12pipe").Fork(uint64(xi*10+form)), harness.NewReporter("x"), ScnOpts{Shards: 2})
				s.Fund(s.KSame)
				var call node.Call
				head := 0
				switch form {
				case 0: // contract sender, cross-shard: the sender leg re-encodes the whole call
					call, head = gen.TransferCall(s.KSame, s.Other, s.F1, big.NewInt(3), gen.BigGas, extras...), 2
					call.CallType = vmcommon.AsynchronousCall
				case 1:
					call, head = gen.NFTTransferCall(s.A, s.KOther, s.SFT, 1, big.NewInt(1), gen.BigGas, extras...), 4
				case 2:
					call, head = gen.MultiCall(s.A, s.KOther, []gen.Item{{ID: s.F1, Nonce: 0, Qty: big.NewInt(1)}, {ID: s.SFT, Nonce: 1, Qty: big.NewInt(1)}}, gen.BigGas, extras...), 7
				case 4: // more entries than a byte counts
					var items []gen.Item
					for k := 0; k < 256+xi*7; k++ {
						items = append(items, gen.Item{ID: s.F1, Nonce: 0, Qty: big.NewInt(1)})
					}
					call, head = gen.MultiCall(s.A, s.KOther, items, gen.BigGas, extras...), 1+3*len(items)
				default: // same-shard contract destination: the attached call is emitted for the VM
					call, head = gen.TransferCall(s.A, s.KSame, s.F1, big.NewInt(3), gen.BigGas, extras...), -1
				}
				data := node.BuildData(call.Func, call.Args)
				guard(R, "C12", "pipeline", func() interface{} { return data }, func() {
					f, pa, err := cp.ParseData(data)
					if err != nil || f != call.Func || len(pa) != len(call.Args) {
						R.Violate("C12:parse-build-not-identity", fmt.Sprintf("ParseData(%q) = (%q, %d args, %v)", data, f, len(pa), err), data)
						return
					}
					call.Args = pa // the parser's own slices
					l := s.U.N.Exec(call)
					if l == nil || !l.OK {
						R.Note("pipeline call not accepted: " + data)
						return
					}
					for _, e := range l.Emitted {
						if e.Data == "" {
							continue
						}
						ef, ea, err := cp.ParseData(e.Data)
						if err != nil {
							R.Violate("C12:emitted-unparsable", fmt.Sprintf("the message %q emitted for %q does not parse: %v", e.Data, data, err), data)
							continue
						}
						if head < 0 {
							// the attached call itself: function = extras[0], arguments = extras[1:]
							if ef != string(extras[0]) || !argsEqual(ea, extras[1:]) {
								R.Violate("C12:pipeline-arguments-changed", fmt.Sprintf("the attached call of %q is emitted as %q: (%q, %d arguments), carried (%q, %d arguments)", data, e.Data, ef, len(ea), extras[0], len(extras)-1), data)
							}
						} else if call.Func == FMulti && len(ea) > 0 && 1+3*u64(ea[0]) != uint64(head) {
							R.Violate("C12:pipeline-arguments-changed", fmt.Sprintf("a multi-transfer of %d entries is continued by a message whose count argument is %x", (head-1)/3, ea[0]), data)
						} else if ef != call.Func || len(ea) != head+len(extras) || !argsEqual(ea[head:], extras) {
							R.Violate("C12:pipeline-arguments-changed", fmt.Sprintf("%q is continued by the message %q: %d arguments, expected %d with the attached call (%d items) unchanged at the end", data, e.Data, len(ea), head+len(extras), len(extras)), data)
						}
						R.Cover("C12/pipeline-messages-checked")
					}
				})
			}
		}
	}

	// ---- histories of one builder instance against a reference builder ----
	for h := 0; h < c.Scale(3000, 30000)/c.Batches; h++ {
		b := txDataBuilder.NewBuilder()
		refFn, refEl := "", []string{}
		var trace []string
		for st := 0; st < 1+r.Intn(10); st++ {
			switch r.Intn(9) {
			case 0:
				f := []string{"f", "g", "", "issue"}[r.Intn(4)]
				b.Func(f)
				refFn = f
				trace = append(trace, "Func("+f+")")
			case 1:
				v := byte(r.Intn(3))
				b.Byte(v)
				refEl = append(refEl, hex.EncodeToString([]byte{v}))
				trace = append(trace, fmt.Sprintf("Byte(%d)", v))
			case 2:
				x := r.Bytes(r.Intn(3))
				b.Bytes(x)
				refEl = append(refEl, hex.EncodeToString(x))
				trace = append(trace, fmt.Sprintf("Bytes(%x)", x))
			case 3:
				v := int64(r.Intn(3)) * 255
				b.Int64(v)
				refEl = append(refEl, hex.EncodeToString(big.NewInt(v).Bytes()))
				trace = append(trace, fmt.Sprintf("Int64(%d)", v))
			case 4:
				b.Clear()
				refFn, refEl = "", []string{}
				trace = append(trace, "Clear()")
			case 5:
				want := ""
				if len(refEl) > 0 {
					want = refEl[len(refEl)-1]
				}
				if got := b.GetLast(); got != want {
					R.Violate("C12:builder-history", fmt.Sprintf("after %v GetLast() = %q, expected %q", trace, got, want), trace)
				}
			case 6:
				if len(refEl) > 0 {
					b.SetLast("ab")
					refEl[len(refEl)-1] = "ab"
					trace = append(trace, "SetLast(ab)")
				}
			case 7:
				b.Str("s")
				refEl = append(refEl, hex.EncodeToString([]byte("s")))
				trace = append(trace, "Str(s)")
			default:
				want := refFn
				for _, e := range refEl {
					want += "@" + e
				}
				if got := b.ToString(); got != want || string(b.ToBytes()) != want {
					R.Violate("C12:builder-history", fmt.Sprintf("after %v ToString() = %q, expected %q", trace, got, want), trace)
				}
			}
		}
		want := refFn
		for _, e := range refEl {
			want += "@" + e
		}
		if got := b.ToString(); got != want {
			R.Violate("C12:builder-history", fmt.Sprintf("after %v ToString() = %q, expected %q", trace, got, want), trace)
		}
		R.Cover("C12/builder-histories")
	}
}

func panicKind(args [][]byte) string {
	// keeps the two known root causes apart in signatures: a wrapping count vs a nil value
	for _, a := range args {
		if len(a) == 8 && a[0] >= 0x55 {
			return "makeslice"
		}
	}
	return "nil-value"
}

// canonicalData lower-cases the hex of every argument.
func canonicalData(s string) string {
	parts := strings.Split(s, "@")
	for i := 1; i < len(parts); i++ {
		parts[i] = strings.ToLower(parts[i])
	}
	return strings.Join(parts, "@")
}

func upperHex(s, fn string) string {
	parts := strings.Split(s, "@")
	for i := 1; i < len(parts); i++ {
		parts[i] = strings.ToUpper(parts[i])
	}
	return strings.Join(parts, "@")
}

// =============================================================================================
// C18 — activation follows confirmed epochs; registry complete and correctly bound

func init() {
	harness.Register(&harness.Property{
		ID: "C18", Level: "exploration", Exhaustive: true,
		Rule:        "exhaustive sub-domain: activation epochs {0,1,2,3,2^31,2^32-1} x ALL epoch sequences of length <= 4 (quick) / 5 (thorough) over {0..4} ∪ {a-1,a,a+1} (regressions and repeats included), IsActive of all 23 functions compared with the reference after EVERY notification, on every shard of factory configurations (DNS sets, EnableUserNameChange, 1-3 shards, three gas maps); registry compared with the literal list of 23 protocol names; binding probes: for every name the object bound to it must show that name's distinctive effect (monitors C02-C08 keyed by name + direct effect probes). Non-trivial = a notification that changes the reference answer or a probe that commits; distinct = (activation, sequence) and probe names Notifications carry timestamps (epoch start time / zero / strictly decreasing / pseudo-random); probes include the refusals that distinguish neighbouring names (wipe of a holding that is not frozen, freeze twice, un-pause of a token that is not paused).",
		Assumptions: []string{"the literal list of the 23 protocol function names in internal/props/shadow.go"},
		Batches:     tierN(6, 12),
		Floors:      map[string]int64{"C18/notifications": 5000, "C18/binding-probes": 23, "C18/registry-checks": 6},
		Run:         runC18,
	})
}

var gatedFuncs = map[string]bool{FMulti: true, FNFTAddURI: true, FNFTUpdAttr: true}

func runC18(c *harness.Ctx) {
	R := c.R
	acts := []uint32{0, 1, 2, 3, 1 << 31, ^uint32(0)}
	maxLen := c.Scale(4, 5)
	ci := 0
	for _, a := range acts {
		dom := map[uint32]bool{0: true, 1: true, 2: true, 3: true, 4: true, a: true, a + 1: true, a - 1: true}
		var vals []uint32
		for v := range dom {
			vals = append(vals, v)
		}
		sort.Slice(vals, func(i, j int) bool { return vals[i] < vals[j] })
		for cfg := 0; cfg < 3; cfg++ {
			ci++
			if !mine(c, ci) {
				continue
			}
			// one world per (activation, configuration); sequences are explored depth-first, the
			// flag state after a sequence depends only on the last notification, which is exactly
			// what the property claims and what the comparison after every step checks
			mk := func() *world.World {
				w, err := world.New(world.Config{NumShards: uint32(1 + cfg), ActivationEpoch: a, EnableNameChg: cfg == 1, DNS: [][]byte{gen.UserAddr(9, 0), gen.UserAddr(8, 0)}[:1+cfg%2],
					GasMap: world.GasMapFrom(func(_, _ string, i int) uint64 { return uint64(1+cfg)*1000 + uint64(i) })})
				if err != nil {
					R.Violate("C18:factory-fails", "factory rejects a valid configuration: "+err.Error(), cfg)
					return nil
				}
				// the timestamp that accompanies a notification carries no meaning for activation:
				// epoch start times (default), always zero, strictly decreasing, pseudo-random
				switch (ci + int(a)) % 6 {
				case 1:
					w.TimestampOf = func(uint32, int) uint64 { return 0 }
				case 2:
					w.TimestampOf = func(_ uint32, n int) uint64 { return 1<<40 - uint64(n) }
				case 3:
					w.TimestampOf = func(e uint32, n int) uint64 { return harness.Hash64(fmt.Sprint(e, n)) }
				case 4:
					w.TimestampOf = func(uint32, int) uint64 { return 1600000000 } // the same non-zero value every time
				case 5:
					w.TimestampOf = func(_ uint32, n int) uint64 { return 1600000000 + uint64(n/2)*6 } // repeating in pairs
				}
				return w
			}
			w := mk()
			if w == nil {
				continue
			}
			check := func(w *world.World, last *uint32, seq []uint32) {
				for _, sh := range w.Shards {
					for _, name := range AllFuncs {
						fn, err := sh.Container.Get(name)
						if err != nil {
							R.Violate("C18:registry-missing", "function "+name+" missing from the container", name)
							continue
						}
						want := true
						if gatedFuncs[name] {
							want = last != nil && *last >= a
						}
						if fn.IsActive() != want {
							R.Violate("C18:activation:"+name, fmt.Sprintf("%s.IsActive() = %v after confirmed epochs %v with activation epoch %d (expected %v)", name, fn.IsActive(), seq, a, want), map[string]interface{}{"activation": a, "epochs": seq})
						}
					}
				}
			}
			check(w, nil, nil)
			var dfs func(seq []uint32)
			dfs = func(seq []uint32) {
				if len(seq) == maxLen {
					return
				}
				for _, e := range vals {
					w.ConfirmEpoch(e)
					s2 := append(append([]uint32{}, seq...), e)
					ee := e
					check(w, &ee, s2)
					R.Cover("C18/notifications")
					if (e >= a) != (len(seq) > 0 && seq[len(seq)-1] >= a) {
						R.Distinct(harness.Hash64("c18", fmt.Sprint(a, s2)))
					}
					dfs(s2)
					// restore the flag state of the parent prefix by replaying its last epoch (the
					// library keeps no other state; a fresh world is used periodically as a guard)
					if len(seq) > 0 {
						w.ConfirmEpoch(seq[len(seq)-1])
					} else {
						w = mk()
					}
				}
			}
			dfs(nil)
			R.Eval(1)
			if ci == 1 {
				sample(c, map[string]interface{}{"activation_epoch": a, "example_sequence": []uint32{a + 1, a - 1, a, 0, 4}, "checked": "IsActive of all 23 functions after every notification"})
			}
		}
	}
	// ---- a notifier that notifies on registration (the node's does): the epoch delivered while the
	// container is being built is the most recently confirmed one ----
	for _, a := range acts {
		for _, cur := range []uint32{0, a - 1, a, a + 1, 1, ^uint32(0)} {
			ci++
			if !mine(c, ci) {
				continue
			}
			cur := cur
			w, err := world.New(world.Config{NumShards: 2, ActivationEpoch: a, NotifyOnRegister: &cur, DNS: [][]byte{gen.UserAddr(9, 0)}})
			if err != nil {
				R.Violate("C18:factory-fails", "factory rejects a valid configuration: "+err.Error(), nil)
				continue
			}
			for _, sh := range w.Shards {
				for _, name := range AllFuncs {
					fn, err := sh.Container.Get(name)
					if err != nil {
						continue
					}
					want := !gatedFuncs[name] || cur >= a
					if fn.IsActive() != want {
						R.Violate("C18:activation-at-registration:"+name, fmt.Sprintf("%s.IsActive() = %v right after construction with activation epoch %d and epoch %d confirmed at registration", name, fn.IsActive(), a, cur), map[string]interface{}{"activation": a, "epoch_at_registration": cur})
					}
				}
			}
			// and it keeps following later notifications
			for _, e := range []uint32{a, a - 1, a + 1} {
				w.ConfirmEpoch(e)
				for _, name := range AllFuncs {
					if fn, err := w.Shards[0].Container.Get(name); err == nil {
						if want := !gatedFuncs[name] || e >= a; fn.IsActive() != want {
							R.Violate("C18:activation:"+name, fmt.Sprintf("%s.IsActive() = %v after epoch %d (activation %d, registered at epoch %d)", name, fn.IsActive(), e, a, cur), nil)
						}
					}
				}
			}
			R.Cover("C18/registration-notifications")
			R.Eval(1)
		}
	}
	// ---- registry: exactly the 23 protocol names ----
	for cfg := 0; cfg < 9; cfg++ {
		ci++
		if !mine(c, ci) {
			continue
		}
		// DNS sets of one, none (an empty, non-nil map is a valid configuration) and three addresses
		dns := [][][]byte{{gen.UserAddr(9, 0)}, {}, {gen.UserAddr(9, 0), gen.UserAddr(8, 0), gen.UserAddr(7, 0)}}[cfg%3]
		w, err := world.New(world.Config{NumShards: uint32(1 + cfg%3), ActivationEpoch: uint32(cfg), EnableNameChg: cfg%2 == 0, DNS: dns})
		if err != nil {
			R.Violate("C18:factory-fails", "factory rejects a valid configuration: "+err.Error(), cfg)
			continue
		}
		// the factory is asked for a container AGAIN after the first one was used and modified by its
		// owner (handlers set, a schedule change, a name added, one replaced, one removed): what it
		// builds then is again the complete, correctly bound registry
		if cfg >= 3 {
			for _, sh := range w.Shards {
				first := sh.Container
				w.GasScheduleChange(world.GasMapFrom(func(_, _ string, i int) uint64 { return 4000 + uint64(i) }))
				tr, _ := first.Get(FTransfer)
				_ = first.Add("customFunction", tr)
				if wipe, err := first.Get(FWipe); err == nil {
					_ = first.Replace(FTransfer, wipe)
				}
				first.Remove(FWipe)
				first.Remove(FSetName)
				second, err := sh.Factory.CreateBuiltInFunctionContainer()
				if err != nil {
					R.Violate("C18:factory-fails", "a second CreateBuiltInFunctionContainer fails: "+err.Error(), cfg)
					continue
				}
				_ = builtInFunctions.SetPayableHandler(second, &world.PayableOracle{W: w})
				sh.Container = second
				if f2, err := second.Get(FTransfer); err == nil {
					if w1, err := first.Get(FTransfer); err == nil && f2 == w1 {
						R.Violate("C18:registry-names", "after a second CreateBuiltInFunctionContainer the name ESDTTransfer is bound to the object the owner of the FIRST container put there", cfg)
					}
				}
				R.Cover("C18/second-container-checks")
			}
		}
		for _, sh := range w.Shards {
			keys := sh.Container.Keys()
			var got []string
			for k := range keys {
				got = append(got, k)
			}
			sort.Strings(got)
			want := append([]string{}, AllFuncs...)
			sort.Strings(want)
			if !reflect.DeepEqual(got, want) || sh.Container.Len() != 23 {
				R.Violate("C18:registry-names", fmt.Sprintf("container holds %d names %v, the protocol defines 23: %v", sh.Container.Len(), got, want), got)
			}
			R.Cover("C18/registry-checks")
		}
		// in every one of these configurations (DNS set empty, one, three; second container) the
		// functions without an activation epoch are active, before any notification and after one
		for round := 0; round < 2; round++ {
			for _, sh := range w.Shards {
				for _, name := range AllFuncs {
					fn, err := sh.Container.Get(name)
					if err != nil {
						continue
					}
					want := true
					if gatedFuncs[name] {
						want = round == 1
					}
					if fn.IsActive() != want {
						R.Violate("C18:activation:"+name, fmt.Sprintf("%s.IsActive() = %v in configuration %d (DNS addresses: %d, activation epoch %d, notifications so far: %d), expected %v", name, fn.IsActive(), cfg, len(dns), cfg, round, want), cfg)
					}
					R.Cover("C18/always-active-checked")
				}
			}
			w.ConfirmEpoch(uint32(cfg) + 1)
		}
	}
	// ---- binding probes ----
	ci++
	if mine(c, ci) {
		c18Probes(c)
	}
}

// c18Probes: every name must be bound to the behaviour of that name. The per-function effect
// oracles (C02/C03/C04/C07/C08 monitors) are keyed by name; in addition each probe asserts the
// name's distinctive effect directly.
func c18Probes(c *harness.Ctx) {
	R := c.R
	if _, err := world.New(world.Config{NumShards: 2, DNS: [][]byte{gen.UserAddr(9, 0)}}); err != nil {
		return // reported by the registry part
	}
	probe := func(name string, f func(s *Scn) (bool, string)) {
		s := NewScn(c.Rand("probe").Fork(harness.Hash64(name)), c.R, ScnOpts{Shards: 2, Enabled: []string{"C18x"}})
		s.M.Enabled = map[string]bool{"C02": true, "C03": true, "C04": true, "C05": true, "C07": true, "C08": true}
		// violations of the name-keyed monitors are re-attributed to C18
		inner := harness.NewReporter("C18")
		s.M.R = inner
		ok, why := f(s)
		if !ok {
			R.Violate("C18:binding:"+name, "the object bound to "+name+" does not show that name's effect: "+why, s.M.History)
		}
		for _, v := range inner.Violations {
			R.Violate("C18:binding-monitor:"+name+":"+v.Sig, "effect oracle keyed by the name "+name+" fired: "+v.What, v.Witness)
		}
		R.Cover("C18/binding-probes")
		R.DistinctS("C18probe", name)
		R.Eval(s.U.N.Seq())
	}
	bal := func(s *Scn, a, id []byte, n uint64) int64 { return s.U.Balance(a, id, n).Int64() }
	frozen := func(s *Scn, a, id []byte) bool {
		t, ok := liveEntry(s.U.W, a, node.KeyPrefix+string(id))
		return ok && t.Frozen()
	}
	paused := func(s *Scn, sh uint32, id []byte) bool {
		v := s.U.W.Shards[sh].Get(gen.SysAcc).Peek([]byte(node.KeyPrefix + string(id)))
		return len(v) == 2 && v[0]&1 != 0
	}
	hasRole := func(s *Scn, a, id []byte, role string) bool { return hasRoleInStorage(s.U.W, a, id, role) }

	probe(FFreeze, func(s *Scn) (bool, string) {
		l := s.U.Freeze(s.A, s.F1)
		return l.OK && frozen(s, s.A, s.F1) && bal(s, s.A, s.F1, 0) == 1000, "frozen bit not set / balance changed"
	})
	probe(FUnFreeze, func(s *Scn) (bool, string) {
		s.U.Freeze(s.A, s.F1)
		l := s.U.UnFreeze(s.A, s.F1)
		return l.OK && !frozen(s, s.A, s.F1) && bal(s, s.A, s.F1, 0) == 1000, "frozen bit not cleared"
	})
	probe(FWipe, func(s *Scn) (bool, string) {
		s.U.Freeze(s.A, s.F1)
		l := s.U.Wipe(s.A, s.F1)
		_, exists := liveEntry(s.U.W, s.A, node.KeyPrefix+string(s.F1))
		return l.OK && !exists, "frozen holding not deleted"
	})
	probe(FWipe+"/holder-not-frozen", func(s *Scn) (bool, string) {
		l := s.U.Wipe(s.A, s.F1)
		return !l.OK && !frozen(s, s.A, s.F1) && bal(s, s.A, s.F1, 0) == 1000, "a holding that is not frozen was wiped (or frozen) by ESDTWipe"
	})
	probe(FFreeze+"/twice", func(s *Scn) (bool, string) {
		s.U.Freeze(s.A, s.F1)
		l := s.U.Freeze(s.A, s.F1)
		return l.OK && frozen(s, s.A, s.F1) && bal(s, s.A, s.F1, 0) == 1000, "freezing twice does not leave the holding frozen and intact"
	})
	probe(FUnPause+"/not-paused", func(s *Scn) (bool, string) {
		l := s.U.UnPause(0, s.F1)
		return l.OK && !paused(s, 0, s.F1), "un-pausing a token that is not paused leaves it paused"
	})
	probe(FPause, func(s *Scn) (bool, string) {
		l := s.U.Pause(0, s.F1)
		return l.OK && paused(s, 0, s.F1), "pause flag not set"
	})
	probe(FUnPause, func(s *Scn) (bool, string) {
		s.U.Pause(0, s.F1)
		l := s.U.UnPause(0, s.F1)
		return l.OK && !paused(s, 0, s.F1), "pause flag not cleared"
	})
	probe(FSetRole, func(s *Scn) (bool, string) {
		l := s.U.SetRoles(s.Same, s.F1, RoleMint)
		return l.OK && hasRole(s, s.Same, s.F1, RoleMint), "role not added"
	})
	probe(FUnSetRole, func(s *Scn) (bool, string) {
		l := s.U.UnsetRoles(s.A, s.F1, RoleMint)
		return l.OK && !hasRole(s, s.A, s.F1, RoleMint) && hasRole(s, s.A, s.F1, RoleBurn), "role not removed"
	})
	probe(FLocalMint, func(s *Scn) (bool, string) {
		l := s.U.N.Exec(gen.SelfCall(FLocalMint, s.A, gen.BigGas, s.F1, gen.Big(5)))
		return l.OK && bal(s, s.A, s.F1, 0) == 1005, "balance not raised"
	})
	probe(FLocalBurn, func(s *Scn) (bool, string) {
		l := s.U.N.Exec(gen.SelfCall(FLocalBurn, s.A, gen.BigGas, s.F1, gen.Big(5)))
		return l.OK && bal(s, s.A, s.F1, 0) == 995, "balance not lowered"
	})
	probe(FBurn, func(s *Scn) (bool, string) {
		l := s.U.N.Exec(node.Call{Func: FBurn, Caller: s.A, Recipient: gen.SysSC, Args: [][]byte{s.F1, gen.Big(7)}, Gas: gen.BigGas})
		return l.OK && bal(s, s.A, s.F1, 0) == 993, "balance not lowered"
	})
	probe(FTransfer, func(s *Scn) (bool, string) {
		l := s.U.N.Exec(s.Xfer("T", s.A, s.Same, "f"))
		return l.OK && bal(s, s.A, s.F1, 0) == 990 && bal(s, s.Same, s.F1, 0) == 10, "tokens not moved"
	})
	probe(FNFTXfer, func(s *Scn) (bool, string) {
		l := s.U.N.Exec(s.Xfer("N", s.A, s.Same, "s"))
		return l.OK && bal(s, s.A, s.SFT, 1) == 7 && bal(s, s.Same, s.SFT, 1) == 3, "NFT not moved"
	})
	probe(FMulti, func(s *Scn) (bool, string) {
		l := s.U.N.Exec(s.Xfer("M", s.A, s.Same, "fs"))
		return l.OK && bal(s, s.Same, s.F1, 0) == 10 && bal(s, s.Same, s.SFT, 1) == 3, "tokens not moved"
	})
	probe(FNFTCreate, func(s *Scn) (bool, string) {
		l := s.U.Create(s.A, s.SFT, 9, "n", "h", "a", 1, "u")
		return l.OK && bal(s, s.A, s.SFT, 3) == 9, "no new entry under the successor nonce"
	})
	probe(FNFTAddQty, func(s *Scn) (bool, string) {
		l := s.U.N.Exec(gen.SelfCall(FNFTAddQty, s.A, gen.BigGas, s.SFT, gen.U64(1), gen.Big(5)))
		return l.OK && bal(s, s.A, s.SFT, 1) == 15, "quantity not raised"
	})
	probe(FNFTBurn, func(s *Scn) (bool, string) {
		l := s.U.N.Exec(gen.SelfCall(FNFTBurn, s.A, gen.BigGas, s.SFT, gen.U64(1), gen.Big(4)))
		return l.OK && bal(s, s.A, s.SFT, 1) == 6, "quantity not lowered"
	})
	probe(FNFTAddURI, func(s *Scn) (bool, string) {
		l := s.U.N.Exec(gen.SelfCall(FNFTAddURI, s.A, gen.BigGas, s.SFT, gen.U64(1), []byte("new-uri")))
		t, ok := liveEntry(s.U.W, s.A, node.StorageKey(s.SFT, 1))
		return l.OK && ok && len(t.Meta.URIs) == 3 && string(t.Meta.URIs[2]) == "new-uri" && string(t.Meta.Attributes) == "attrs", "URI not appended"
	})
	probe(FNFTUpdAttr, func(s *Scn) (bool, string) {
		l := s.U.N.Exec(gen.SelfCall(FNFTUpdAttr, s.A, gen.BigGas, s.SFT, gen.U64(1), []byte("new-attrs")))
		t, ok := liveEntry(s.U.W, s.A, node.StorageKey(s.SFT, 1))
		return l.OK && ok && string(t.Meta.Attributes) == "new-attrs" && len(t.Meta.URIs) == 2, "attributes not replaced"
	})
	probe(FHandOver, func(s *Scn) (bool, string) {
		l := s.U.HandOver(s.A, s.Same, s.SFT)
		return l.OK && !hasRole(s, s.A, s.SFT, RoleCreate) && hasRole(s, s.Same, s.SFT, RoleCreate) && counterInStorage(s.U.W, s.Same, s.SFT) == 2, "role and counter not moved"
	})
	probe(FSaveKV, func(s *Scn) (bool, string) {
		l := s.U.N.Exec(node.Call{Func: FSaveKV, Caller: s.A, Recipient: s.A, Args: [][]byte{[]byte("key"), []byte("val")}, Gas: gen.BigGas})
		return l.OK && string(s.U.W.Account(s.A).Peek([]byte("key"))) == "val", "pair not written"
	})
	probe(FChgOwner, func(s *Scn) (bool, string) {
		l := s.U.N.Exec(node.Call{Func: FChgOwner, Caller: s.A, Recipient: s.KSame, Args: [][]byte{s.Same}, Gas: gen.BigGas})
		return l.OK && bytes.Equal(s.U.W.Account(s.KSame).Owner, s.Same) && s.U.W.Account(s.KSame).DevReward.Int64() == 777, "owner not changed"
	})
	probe(FClaim, func(s *Scn) (bool, string) {
		l := s.U.N.Exec(node.Call{Func: FClaim, Caller: s.A, Recipient: s.KSame, Gas: gen.BigGas})
		return l.OK && s.U.W.Account(s.KSame).DevReward.Sign() == 0 && s.U.W.Account(s.A).Balance.Int64() == 777 && bytes.Equal(s.U.W.Account(s.KSame).Owner, s.A), "reward not moved to the owner"
	})
	probe(FSetName, func(s *Scn) (bool, string) {
		tgt := gen.UserAddr(5, s.U.DNS[31])
		l := s.U.N.Exec(node.Call{Func: FSetName, Caller: s.U.DNS, Recipient: tgt, Args: [][]byte{[]byte("alice")}, Gas: gen.BigGas})
		return l.OK && string(s.U.W.Account(tgt).UserName) == "alice", "user name not set"
	})
	// the price each name is bound to at construction: on a factory-built container that never saw
	// a schedule change, every priced function charges its own entry of the construction schedule
	S0 := world.GasMapFrom(baseSched)
	for _, sc := range Scenarios() {
		if sc.Dest || sc.OwnField == "" || sc.OwnSig {
			continue // (OwnSig: the scenario exercises a known pricing finding that belongs to C16)
		}
		s0 := scnFor(c, sc, S0, "C18x")
		l0 := sc.Exec(s0, gen.BigGas)
		if l0 == nil || !l0.OK {
			continue
		}
		cons0, ok := node.Consumed(l0)
		if !ok {
			continue
		}
		per := map[string]uint64{}
		if sc.PerByte != nil {
			per = sc.PerByte(s0, l0)
		}
		want, exact := priceFormula(sc, per, S0)
		if (exact && cons0 != want) || (!exact && cons0 < want) {
			R.Violate("C18:binding-price:"+scSig(sc), fmt.Sprintf("on a freshly built container %s (scenario %s) consumes %d, its own schedule entries give %d", sc.Func, sc.Name, cons0, want), s0.M.History)
		}
		R.Cover("C18/price-probes")
		R.Eval(1)
	}
	// configuration binding: DNS set and EnableUserNameChange reach the function
	for _, enable := range []bool{false, true} {
		u, err := gen.NewUniverse(c.Rand("cfg"), gen.UniOpts{Shards: 1, NameChange: enable})
		if err != nil {
			continue
		}
		tgt := gen.UserAddr(5, 0)
		l1 := u.N.Exec(node.Call{Func: FSetName, Caller: u.DNS, Recipient: tgt, Args: [][]byte{[]byte("a")}, Gas: gen.BigGas})
		l2 := u.N.Exec(node.Call{Func: FSetName, Caller: u.DNS, Recipient: tgt, Args: [][]byte{[]byte("b")}, Gas: gen.BigGas})
		if !l1.OK || l2.OK != enable {
			R.Violate("C18:binding:EnableUserNameChange", fmt.Sprintf("EnableUserNameChange=%v: first set ok=%v, second set ok=%v", enable, l1.OK, l2.OK), nil)
		}
		R.Cover("C18/config-probes")
	}
}
