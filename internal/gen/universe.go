// Package gen builds the small universes the workloads run in and generates calls.
package gen

import (
	"bytes"
	"fmt"
	"math/big"
	"sort"
	"strings"

	vmcommon "github.com/ElrondNetwork/elrond-vm-common"
	"verif/internal/harness"
	"verif/internal/node"
	"verif/internal/refcodec"
	"verif/internal/world"
)

const (
	KindFungible = 0
	KindSFT      = 1
	KindNFT      = 2
)

type Token struct {
	ID   []byte
	Kind int
}

type Universe struct {
	W         *world.World
	N         *node.Node
	Users     [][]byte
	Contracts [][]byte
	Actors    [][]byte // users + contracts
	DNS       []byte
	Tokens    []Token
	R         *harness.Rand
}

var AllRoles = []string{vmcommon.ESDTRoleLocalMint, vmcommon.ESDTRoleLocalBurn, vmcommon.ESDTRoleNFTCreate, vmcommon.ESDTRoleNFTAddQuantity,
	vmcommon.ESDTRoleNFTBurn, vmcommon.ESDTRoleNFTAddURI, vmcommon.ESDTRoleNFTUpdateAttributes}

func UserAddr(i int, last byte) []byte {
	a := bytes.Repeat([]byte{0xA0 + byte(i)}, 32)
	a[0] = 0x10 + byte(i)
	a[31] = last
	return a
}

func ContractAddr(i int, last byte) []byte {
	a := bytes.Repeat([]byte{0xC0 + byte(i)}, 32)
	for k := 0; k < 8; k++ {
		a[k] = 0
	}
	a[8], a[9] = 0x05, 0x00
	a[31] = last
	return a
}

func Big(v int64) []byte        { return big.NewInt(v).Bytes() }
func U64(v uint64) []byte       { return new(big.Int).SetUint64(v).Bytes() }
func BigB(v *big.Int) []byte    { return v.Bytes() }
func Pow2(n uint) *big.Int      { return new(big.Int).Lsh(big.NewInt(1), n) }
func B(s string) []byte         { return []byte(s) }
func Cat(p ...[]byte) []byte    { return bytes.Join(p, nil) }
func Args(a ...[]byte) [][]byte { return a }

var SysSC = vmcommon.ESDTSCAddress
var SysAcc = vmcommon.SystemAccountAddress

const BigGas = uint64(1) << 50

type UniOpts struct {
	Shards       uint32
	Users        int
	Contracts    int
	GasMap       map[string]map[string]uint64
	Activation   uint32
	ConfirmEpoch *uint32
	NameChange   bool
	NoConfirm    bool
	PreCreate    []map[string]map[string]uint64
}

// NewUniverse builds a world with users and contracts spread over the shards and the standard
// token list. Nothing is held yet.
func NewUniverse(r *harness.Rand, o UniOpts) (*Universe, error) {
	if o.Shards == 0 {
		o.Shards = 1
	}
	if o.Users == 0 {
		o.Users = 4
	}
	u := &Universe{R: r}
	for i := 0; i < o.Users; i++ {
		u.Users = append(u.Users, UserAddr(i, byte(uint32(i)%o.Shards)))
	}
	for i := 0; i < o.Contracts; i++ {
		u.Contracts = append(u.Contracts, ContractAddr(i, byte(uint32(i+1)%o.Shards)))
	}
	u.DNS = UserAddr(9, byte(o.Shards-1))
	u.Actors = append(append([][]byte{}, u.Users...), u.Contracts...)
	cfg := world.Config{NumShards: o.Shards, GasMap: o.GasMap, ActivationEpoch: o.Activation, EnableNameChg: o.NameChange, DNS: [][]byte{u.DNS}, PreCreate: o.PreCreate}
	if !o.NoConfirm {
		e := o.Activation
		if o.ConfirmEpoch != nil {
			e = *o.ConfirmEpoch
		}
		cfg.ConfirmEpoch = &e
	}
	w, err := world.New(cfg)
	if err != nil {
		return nil, err
	}
	u.W = w
	u.N = node.New(w)
	u.Tokens = []Token{
		{ID: []byte("FUNA-a1b2c3"), Kind: KindFungible},
		{ID: []byte("FUNB-0d0e0f"), Kind: KindFungible},
		{ID: []byte("SFTA-112233"), Kind: KindSFT},
		{ID: []byte("NFTA-445566"), Kind: KindNFT},
	}
	// contracts: code metadata (even index payable, odd non-payable), an owner, a developer reward
	for i, c := range u.Contracts {
		a := w.Account(c)
		md := vmcommon.CodeMetadata{Payable: i%2 == 0, Readable: true}
		a.CodeMeta = md.ToBytes()
		a.Owner = append([]byte{}, u.Users[i%len(u.Users)]...)
		a.DevReward = big.NewInt(int64(1000 + i))
	}
	return u, nil
}

// ---- calls ----

func (u *Universe) sys(fn string, rcv []byte, args ...[]byte) node.Call {
	return node.Call{Func: fn, Caller: SysSC, Recipient: rcv, Args: args, Gas: 0}
}

// Issue credits a fungible amount from the system contract (protocol issuance).
func (u *Universe) Issue(to []byte, id []byte, amount *big.Int) *node.Leg {
	return u.N.Exec(u.sys(vmcommon.BuiltInFunctionESDTTransfer, to, id, amount.Bytes()))
}
func (u *Universe) SetRoles(to []byte, id []byte, roles ...string) *node.Leg {
	args := [][]byte{id}
	for _, r := range roles {
		args = append(args, []byte(r))
	}
	return u.N.Exec(u.sys(vmcommon.BuiltInFunctionSetESDTRole, to, args...))
}
func (u *Universe) UnsetRoles(to []byte, id []byte, roles ...string) *node.Leg {
	args := [][]byte{id}
	for _, r := range roles {
		args = append(args, []byte(r))
	}
	return u.N.Exec(u.sys(vmcommon.BuiltInFunctionUnSetESDTRole, to, args...))
}
func (u *Universe) Freeze(acc, id []byte) *node.Leg {
	return u.N.Exec(u.sys(vmcommon.BuiltInFunctionESDTFreeze, acc, id))
}
func (u *Universe) UnFreeze(acc, id []byte) *node.Leg {
	return u.N.Exec(u.sys(vmcommon.BuiltInFunctionESDTUnFreeze, acc, id))
}
func (u *Universe) Wipe(acc, id []byte) *node.Leg {
	return u.N.Exec(u.sys(vmcommon.BuiltInFunctionESDTWipe, acc, id))
}

// Pause / UnPause are executed at the system account of ONE shard.
func (u *Universe) Pause(shard uint32, id []byte) *node.Leg {
	return u.N.ExecAt(shard, u.sys(vmcommon.BuiltInFunctionESDTPause, SysAcc, id))
}
func (u *Universe) UnPause(shard uint32, id []byte) *node.Leg {
	return u.N.ExecAt(shard, u.sys(vmcommon.BuiltInFunctionESDTUnPause, SysAcc, id))
}
func (u *Universe) HandOver(cur, next, id []byte) *node.Leg {
	return u.N.Exec(u.sys(vmcommon.BuiltInFunctionESDTNFTCreateRoleTransfer, cur, id, next))
}

func SelfCall(fn string, who []byte, gas uint64, args ...[]byte) node.Call {
	return node.Call{Func: fn, Caller: who, Recipient: who, Args: args, Gas: gas}
}

func (u *Universe) Create(who, id []byte, qty int64, name, hash, attrs string, royalties int64, uris ...string) *node.Leg {
	args := [][]byte{id, Big(qty), []byte(name), Big(royalties), []byte(hash), []byte(attrs)}
	for _, x := range uris {
		args = append(args, []byte(x))
	}
	return u.N.Exec(SelfCall(vmcommon.BuiltInFunctionESDTNFTCreate, who, BigGas, args...))
}

// NumPad, when set, says how many leading zero bytes the next numeric argument of a transfer call
// gets (non-minimal encodings are ordinary transaction input).
var NumPad func() int

func num(b []byte) []byte {
	if NumPad == nil {
		return b
	}
	if k := NumPad(); k > 0 {
		return append(make([]byte, k), b...)
	}
	return b
}

func TransferCall(from, to, id []byte, amount *big.Int, gas uint64, extra ...[]byte) node.Call {
	args := append([][]byte{id, num(amount.Bytes())}, extra...)
	return node.Call{Func: vmcommon.BuiltInFunctionESDTTransfer, Caller: from, Recipient: to, Args: args, Gas: gas}
}

func NFTTransferCall(from, to, id []byte, nonce uint64, qty *big.Int, gas uint64, extra ...[]byte) node.Call {
	args := append([][]byte{id, num(U64(nonce)), num(qty.Bytes()), to}, extra...)
	return node.Call{Func: vmcommon.BuiltInFunctionESDTNFTTransfer, Caller: from, Recipient: from, Args: args, Gas: gas}
}

type Item struct {
	ID    []byte
	Nonce uint64
	Qty   *big.Int
}

func MultiCall(from, to []byte, items []Item, gas uint64, extra ...[]byte) node.Call {
	args := [][]byte{to, num(Big(int64(len(items))))}
	for _, it := range items {
		args = append(args, it.ID, num(U64(it.Nonce)), num(it.Qty.Bytes()))
	}
	args = append(args, extra...)
	return node.Call{Func: vmcommon.BuiltInFunctionMultiESDTNFTTransfer, Caller: from, Recipient: from, Args: args, Gas: gas}
}

// ---- reading the world (for generators; not an oracle) ----

type Holding struct {
	ID     []byte
	Nonce  uint64
	Amount *big.Int
	Key    string
	Frozen bool
}

// Holdings lists the registered-token holdings of an account, sorted by key.
func (u *Universe) Holdings(addr []byte) []Holding {
	a := u.W.AccountIfExists(addr)
	if a == nil {
		return nil
	}
	var out []Holding
	for k, v := range a.Storage {
		if !strings.HasPrefix(k, node.KeyPrefix) {
			continue
		}
		rest := k[len(node.KeyPrefix):]
		for _, t := range u.Tokens {
			if strings.HasPrefix(rest, string(t.ID)) {
				nb := rest[len(t.ID):]
				if len(nb) > 8 {
					continue
				}
				tok, err := refcodec.DecodeToken(v)
				if err != nil {
					continue
				}
				out = append(out, Holding{ID: t.ID, Nonce: new(big.Int).SetBytes([]byte(nb)).Uint64(), Amount: tok.Amount(), Key: k, Frozen: tok.Frozen()})
			}
		}
	}
	sort.Slice(out, func(i, j int) bool { return out[i].Key < out[j].Key })
	return out
}

func (u *Universe) Balance(addr, id []byte, nonce uint64) *big.Int {
	a := u.W.AccountIfExists(addr)
	if a == nil {
		return new(big.Int)
	}
	v := a.Peek([]byte(node.StorageKey(id, nonce)))
	if len(v) == 0 {
		return new(big.Int)
	}
	t, err := refcodec.DecodeToken(v)
	if err != nil {
		return new(big.Int)
	}
	return t.Amount()
}

func (u *Universe) Roles(addr, id []byte) []string {
	a := u.W.AccountIfExists(addr)
	if a == nil {
		return nil
	}
	rs, _ := refcodec.DecodeRoles(a.Peek([]byte(node.RolePrefix + string(id))))
	var out []string
	for _, r := range rs {
		out = append(out, string(r))
	}
	return out
}

func (u *Universe) Pick(list [][]byte) []byte { return list[u.R.Intn(len(list))] }

func (u *Universe) ShardOf(addr []byte) uint32 { return world.ComputeShard(u.W.NumShards, addr) }

// SetupFailures collects setup steps that did not succeed. A failed setup step does not stop
// the batch (the monitors judge what actually happened, and one failing step must not hide the
// violations of every other case in the batch); the run is reported inconclusive by the parent
// unless a violation was found.
var SetupFailures []string

func Must(l *node.Leg, what string) {
	if l == nil || !l.OK {
		err := "nil leg"
		if l != nil {
			err = fmt.Sprint(l.Err, " ", l.Panic)
		}
		if len(SetupFailures) < 50 {
			SetupFailures = append(SetupFailures, fmt.Sprintf("%s: %s", what, err))
		} else {
			SetupFailures = append(SetupFailures[:49], "…")
		}
	}
}
