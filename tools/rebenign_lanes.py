#!/usr/bin/env python3
"""tools/rebenign_lanes.py [glob|@listfile] [lanes] [first-lane]: every quick check against stored
behaviour-preserving refactors (benign/<id>/patch.diff), spread over scratch lanes (tools/lane.sh)
synced to the current /verif; every check must stay silent. A work queue, so that it can be
interrupted (kill this process) without leaving loops behind. Prints what is not silent and totals."""
import os, re, subprocess, sys, glob, threading, queue
pat = sys.argv[1] if len(sys.argv) > 1 else '*'
L = int(sys.argv[2]) if len(sys.argv) > 2 else 4
FIRST = int(sys.argv[3]) if len(sys.argv) > 3 else 1
CHECKS = os.environ.get('CHECKS', ' '.join('C%02d' % i for i in range(1, 21))).split()
for n in range(FIRST, FIRST + L):
    subprocess.run(['/verif/tools/lane.sh', 'setup', str(n)], check=False)
if pat.startswith('@'):
    dirs = [l.strip() for l in open(pat[1:]) if l.strip()]
else:
    dirs = sorted(glob.glob('/verif/benign/%s/' % pat))
q = queue.Queue()
for d in dirs:
    if os.path.exists(os.path.join(d, 'patch.diff')): q.put(d)
res, lock = [], threading.Lock()
def work(n):
    while True:
        try: d = q.get_nowait()
        except queue.Empty: return
        out = subprocess.run(['/verif/tools/lane.sh', 'mut', str(n), os.path.join(d, 'patch.diff')] + CHECKS, capture_output=True, text=True)
        loud = [l for l in (out.stdout + out.stderr).splitlines() if not re.search(r'violations=0 inconclusive=0\s*$', l)]
        with lock:
            res.append((os.path.basename(d.rstrip('/')), loud))
            print(os.path.basename(d.rstrip('/')), 'NOT SILENT: ' + ' | '.join(x[:200] for x in loud) if loud else 'silent', flush=True)
ts = [threading.Thread(target=work, args=(n,)) for n in range(FIRST, FIRST + L)]
[t.start() for t in ts]; [t.join() for t in ts]
print('TOTAL', len(res), 'NOT-SILENT', sum(1 for r in res if r[1]), [r[0] for r in res if r[1]])
