#!/bin/bash
# tools/rebenign_lanes.sh [lanes] — as rebenign.sh, spread over scratch lanes (tools/lane.sh) synced to
# the current /verif: ALL quick checks against every stored behaviour-preserving refactor; every
# check must stay silent. Prints the refactors that are not silent and a total.
L=${1:-4}
CHECKS="${CHECKS:-C01 C02 C03 C04 C05 C06 C07 C08 C09 C10 C11 C12 C13 C14 C15 C16 C17 C18 C19 C20}"
for n in $(seq 1 $L); do /verif/tools/lane.sh setup $n; done
ls -d /verif/benign/*/ > /tmp/benign_list.txt
for n in $(seq 1 $L); do
  ( awk -v n=$n -v L=$L 'NR%L==n%L' /tmp/benign_list.txt | while read d; do
      id=$(basename $d)
      res=$(/verif/tools/lane.sh mut $n $d/patch.diff $CHECKS 2>&1)
      loud=$(echo "$res" | grep -v "violations=0 inconclusive=0")
      if [ -n "$loud" ]; then echo "$id NOT SILENT:"; echo "$loud" | cut -c1-240; else echo "$id silent"; fi
    done > /tmp/rebenign_lane$n.log 2>&1 ) &
done
wait
cat /tmp/rebenign_lane*.log | grep -v " silent$"
echo "TOTAL $(cat /tmp/rebenign_lane*.log | grep -c 'silent$\|NOT SILENT') NOT-SILENT $(cat /tmp/rebenign_lane*.log | grep -c 'NOT SILENT')"
