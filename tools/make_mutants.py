#!/usr/bin/env python3
"""Hand-written seeded changes (DESIGN.md §7). Each is applied to a scratch copy of the file, diffed
against /repo, and stored as /verif/seeded/<id>/patch.diff + meta.json. /repo itself is not touched."""
import os, subprocess, json, sys, tempfile, shutil

M = []
def m(id, file, old, new, props, what, count=1, more=()):
    M.append(dict(id=id, file=file, old=old, new=new, props=props, what=what, count=count, more=more))

B='builtInFunctions/'
m('m01-nftburn-no-quantity-check', B+'esdtNFTBurn.go', 'if esdtData.Value.Cmp(quantityToBurn) < 0 {', 'if false && esdtData.Value.Cmp(quantityToBurn) < 0 {', ['C02'], 'NFT burn of more than held succeeds')
m('m02-localburn-adds', B+'esdtLocalBurn.go', 'addToESDTBalance(acntSnd, esdtTokenKey, big.NewInt(0).Neg(value)', 'addToESDTBalance(acntSnd, esdtTokenKey, big.NewInt(0).Set(value)', ['C02'], 'local burn adds instead of subtracting')
m('m03-addquantity-wrong-role', B+'esdtNFTAddQuantity.go', '[]byte(vmcommon.ESDTRoleNFTAddQuantity))', '[]byte(vmcommon.ESDTRoleNFTBurn))', ['C03'], 'add quantity gated by the burn role')
m('m05-no-freeze-check-fungible', B+'esdtTransfer.go', '''	err = checkFrozeAndPause(userAcnt.AddressBytes(), key, esdtData, pauseHandler, isReturnWithError)
	if err != nil {
		return err
	}

	esdtData.Value.Add''', '''	esdtData.Value.Add''', ['C04'], 'fungible balance changes ignore freeze and pause')
m('m06-no-token-pause-check-nft', B+'esdtNFTCreate.go', '''	err := checkFrozeAndPause(acnt.AddressBytes(), esdtTokenKey, esdtData, pauseHandler, isReturnWithError)
	if err != nil {
		return nil, err
	}

	nonce := uint64(0)''', '''	var err error
	nonce := uint64(0)''', ['C04'], 'NFT saves ignore the token-level pause flag')
m('m07-pause-no-syssc-guard', B+'esdtPause.go', '''	if !bytes.Equal(vmInput.CallerAddr, vmcommon.ESDTSCAddress) {
		return nil, ErrAddressIsNotESDTSystemSC
	}
	if !vmcommon.IsSystemAccountAddress''', '''	if !bytes.Equal(vmInput.CallerAddr, vmcommon.ESDTSCAddress) && len(vmInput.CallerAddr) == 0 {
		return nil, ErrAddressIsNotESDTSystemSC
	}
	if !vmcommon.IsSystemAccountAddress''', ['C03'], 'anybody can pause')
m('m09-protected-prefix-off-by-one', 'address.go', 'if len(key) < prefixLen {', 'if len(key) <= prefixLen {', ['C05','C20'], 'key equal to ELROND is writable')
m('m10-transfer-gas-not-zeroed', B+'esdtTransfer.go', '''	vmOutput.GasRemaining = 0
}''', '''}''', ['C06'], 'gas forwarded and kept')
m('m11-create-counter-not-saved', B+'esdtNFTCreate.go', '''	err = saveLatestNonce(acntSnd, tokenID, nextNonce)
	if err != nil {
		return nil, err
	}
''', '', ['C07'], 'nonce counter not stored by create')
m('m12-handover-old-keeps-counter', B+'esdtNFTCreateRoleTransfer.go', '''	err = saveLatestNonce(acntDst, tokenID, 0)
	if err != nil {
		return nil, err
	}
''', '', ['C07'], 'old holder keeps the counter')
m('m13-multi-payload-drops-uris', B+'multiESDTNFTTransfer.go', '''		if esdtTransferData.TokenMetaData != nil {
			marshaledNFTTransfer, err := e.marshalizer.Marshal(esdtTransferData)''', '''		if esdtTransferData.TokenMetaData != nil {
			if e.shardCoordinator.SelfId() != e.shardCoordinator.ComputeId(dstAddress) && len(esdtTransferData.TokenMetaData.URIs) > 1 {
				esdtTransferData.TokenMetaData.URIs = esdtTransferData.TokenMetaData.URIs[:1]
			}
			marshaledNFTTransfer, err := e.marshalizer.Marshal(esdtTransferData)''', ['C08','C10'], 'cross-shard multi payload keeps only the first URI')
m('m14-no-hash-comparison', B+'esdtNFTTransfer.go', '''		if !bytes.Equal(currentESDTData.TokenMetaData.Hash, esdtDataToTransfer.TokenMetaData.Hash) {
			return ErrWrongNFTOnDestination
		}''', '''		_ = bytes.Equal''', ['C08'], 'different hash on destination accepted')
m('m15-payable-check-skipped-at-min-args', B+'esdtTransfer.go', '''	if len(vmInput.Arguments) > minLenArguments {
		return false
	}''', '''	if len(vmInput.Arguments) >= minLenArguments {
		return false
	}''', ['C09'], 'plain transfers skip the payability query')
m('m16-parser-minargs-off-by-one', 'parsers/esdtTransferParser.go', 'const MinArgsForESDTNFTTransfer = 4', 'const MinArgsForESDTNFTTransfer = 5', ['C10'], 'parser rejects plain NFT transfers')
m('m17-nil-metadata-deref', B+'esdtNFTCreate.go', '''	if nonce > 0 && esdtData.TokenMetaData == nil {
		return nil, ErrNFTDoesNotHaveMetadata
	}
''', '', ['C11'], 'fungible alias dereferences nil metadata')
m('m18-keyprefix-spare-capacity', B+'esdtTransfer.go', '''		keyPrefix:        []byte(vmcommon.ElrondProtectedKeyPrefix + vmcommon.ESDTKeyIdentifier),
		pauseHandler:     pauseHandler,
		payableHandler:   &disabledPayableHandler{},''', '''		keyPrefix:        append(make([]byte, 0, 64), []byte(vmcommon.ElrondProtectedKeyPrefix+vmcommon.ESDTKeyIdentifier)...),
		pauseHandler:     pauseHandler,
		payableHandler:   &disabledPayableHandler{},''', ['C13','C19'], 'shared key prefix has spare capacity: appends write into shared memory')
m('m19-roles-map-order', B+'esdtRoles.go', '''		roles.Roles = append(roles.Roles, vmInput.Arguments[1:]...)''', '''		set := map[string]struct{}{}
		for _, r := range vmInput.Arguments[1:] {
			set[string(r)] = struct{}{}
		}
		for r := range set {
			roles.Roles = append(roles.Roles, []byte(r))
		}''', ['C13'], 'role list order depends on map iteration')
m('m20-amount-sign-byte', 'data/bigIntCaster.go', '''		buf[0] = 1
	} else {''', '''		buf[0] = 2
	} else {''', ['C14'], 'negative amounts written with sign byte 2')
m('m21-zero-balance-stored', B+'esdtTransfer.go', 'if isValueZero && arePropertiesEmpty(esdtData.Properties) {', 'if false && isValueZero && arePropertiesEmpty(esdtData.Properties) {', ['C15'], 'zero fungible balance stored instead of deleted')
m('m22-addquantity-priced-by-burn', B+'esdtNFTAddQuantity.go', 'e.funcGasCost = gasCost.BuiltInCost.ESDTNFTAddQuantity', 'e.funcGasCost = gasCost.BuiltInCost.ESDTNFTBurn', ['C16'], 'schedule change prices add-quantity by the burn entry')
m('m23-zero-builtin-cost-accepted', B+'factory.go', '''	err = check.ForZeroUintFields(*builtInOps)
	if err != nil {
		return nil, err
	}
''', '', ['C16'], 'schedule with a zero built-in cost is applied')
m('m24-saveaccount-error-ignored', B+'esdtNFTCreateRoleTransfer.go', '''		err = e.accounts.SaveAccount(newDestUserAcc)
		if err != nil {
			return nil, err
		}''', '''		_ = e.accounts.SaveAccount(newDestUserAcc)''', ['C17'], 'SaveAccount failure swallowed')
m('m25-activation-strict', B+'baseEnabled.go', 'epoch >= b.activationEpoch', 'epoch > b.activationEpoch', ['C18'], 'active only after the activation epoch')
m('m26-freeze-unfreeze-swapped', B+'factory.go', '''	newFunc, err = NewESDTFreezeWipeFunc(b.marshalizer, true, false)
	if err != nil {
		return nil, err
	}
	err = b.builtInFunctions.Add(vmcommon.BuiltInFunctionESDTFreeze, newFunc)''', '''	newFunc, err = NewESDTFreezeWipeFunc(b.marshalizer, true, false)
	if err != nil {
		return nil, err
	}
	err = b.builtInFunctions.Add(vmcommon.BuiltInFunctionESDTUnFreeze, newFunc)''', ['C18'], 'freeze object bound to the unfreeze name', 1, [('''	newFunc, err = NewESDTFreezeWipeFunc(b.marshalizer, false, false)
	if err != nil {
		return nil, err
	}
	err = b.builtInFunctions.Add(vmcommon.BuiltInFunctionESDTUnFreeze, newFunc)''', '''	newFunc, err = NewESDTFreezeWipeFunc(b.marshalizer, false, false)
	if err != nil {
		return nil, err
	}
	err = b.builtInFunctions.Add(vmcommon.BuiltInFunctionESDTFreeze, newFunc)''')])
m('m27-create-no-rlock', B+'esdtNFTCreate.go', '''	e.mutExecution.RLock()
	defer e.mutExecution.RUnlock()

	err := checkESDTNFTCreateBurnAddInput(acntSnd, vmInput, e.funcGasCost)''', '''	err := checkESDTNFTCreateBurnAddInput(acntSnd, vmInput, e.funcGasCost)''', ['C19'], 'create executes without the read lock')
m('m28-mutexmap-len-unlocked', 'container/mutexMap.go', '''	mm.mut.RLock()
	defer mm.mut.RUnlock()

	return len(mm.values)''', '''	return len(mm.values)''', ['C19'], 'Len reads the map without the lock')
m('m29-mutexmap-insert-check-then-act', 'container/mutexMap.go', '''	mm.mut.Lock()

	_, ok := mm.values[key]
	if !ok {
		mm.values[key] = val
	}

	mm.mut.Unlock()

	return !ok''', '''	mm.mut.RLock()
	_, ok := mm.values[key]
	mm.mut.RUnlock()
	if !ok {
		mm.mut.Lock()
		mm.values[key] = val
		mm.mut.Unlock()
	}

	return !ok''', ['C19'], 'Insert is check-then-act across two critical sections (no data race)')
m('m30-merge-aliases-delta', 'output.go', '''	if o.BalanceDelta == nil {
		o.BalanceDelta = big.NewInt(0)
	}
	if outAcc.BalanceDelta != nil {
		o.BalanceDelta.Add(o.BalanceDelta, outAcc.BalanceDelta)
	}''', '''	if o.BalanceDelta == nil && outAcc.BalanceDelta != nil {
		o.BalanceDelta = outAcc.BalanceDelta
	} else if o.BalanceDelta == nil {
		o.BalanceDelta = big.NewInt(0)
	} else if outAcc.BalanceDelta != nil {
		o.BalanceDelta.Add(o.BalanceDelta, outAcc.BalanceDelta)
	}''', ['C20'], 'merge aliases the BalanceDelta of the merged-in account')
m('m31-gasconfig-two-critical-sections', B+'esdtNFTCreate.go', '''	e.mutExecution.Lock()
	e.funcGasCost = gasCost.BuiltInCost.ESDTNFTCreate
	e.gasConfig = gasCost.BaseOperationCost
	e.mutExecution.Unlock()''', '''	e.mutExecution.Lock()
	e.funcGasCost = gasCost.BuiltInCost.ESDTNFTCreate
	e.mutExecution.Unlock()
	e.mutExecution.Lock()
	e.gasConfig = gasCost.BaseOperationCost
	e.mutExecution.Unlock()''', ['C19'], 'base cost and per-byte price updated in two critical sections (no data race)')
m('m32-contract-transfer-drops-call-args', B+'esdtTransfer.go', '''			vmcommon.BuiltInFunctionESDTTransfer,
			vmInput.Arguments,
			vmInput.RecipientAddr,''', '''			vmcommon.BuiltInFunctionESDTTransfer,
			vmInput.Arguments[:vmcommon.MinLenArgumentsESDTTransfer],
			vmInput.RecipientAddr,''', ['C10'], 'cross-shard transfer from a contract drops the attached call')
m('m33-claim-async-skips-owner', B+'claimDeveloperRewards.go', '''	if !bytes.Equal(vmInput.CallerAddr, acntDst.GetOwnerAddress()) {''', '''	if vmInput.CallType != vmcommon.AsynchronousCall && !bytes.Equal(vmInput.CallerAddr, acntDst.GetOwnerAddress()) {''', ['C03'], 'async claim skips the owner check')
m('m34-wipe-without-frozen', B+'esdtFreezeWipe.go', '''	if !esdtUserMetadata.Frozen {
		return ErrCannotWipeAccountNotFrozen
	}
''', '''	_ = esdtUserMetadata
''', ['C02'], 'wipe of an account that is not frozen')
m('m35-unfreeze-zeroes-one', B+'esdtFreezeWipe.go', '''	esdtUserMetadata.Frozen = e.freeze
''', '''	esdtUserMetadata.Frozen = e.freeze
	if !e.freeze && tokenData.Value.Cmp(big.NewInt(1)) == 0 {
		tokenData.Value.SetUint64(0)
	}
''', ['C04'], 'unfreeze destroys a balance of exactly 1')
m('m36-no-royalties-bound', B+'esdtNFTCreate.go', 'if royalties > vmcommon.MaxRoyalty {', 'if false && royalties > vmcommon.MaxRoyalty {', ['C08'], 'royalties above 10000 accepted')
m('m38-nft-payload-holds-remaining', B+'esdtNFTTransfer.go', '''	esdtData.Value.Set(quantityToTransfer)

	if e.shardCoordinator.SelfId() == e.shardCoordinator.ComputeId(dstAddress) {''', '''	if e.shardCoordinator.SelfId() == e.shardCoordinator.ComputeId(dstAddress) || esdtData.Value.Sign() > 0 {
		esdtData.Value.Set(quantityToTransfer)
	}

	if e.shardCoordinator.SelfId() == e.shardCoordinator.ComputeId(dstAddress) {''', ['C01','C10'], 'cross-shard transfer of a WHOLE NFT holding sends value 0 in the payload')
m('m39-multi-dest-log-count', B+'multiESDTNFTTransfer.go', '''		if nonce > 0 {
			marshaledNFTTransfer := vmInput.Arguments[tokenStartIndex+2]''', '''		if nonce > 0 && i < 2 {
			marshaledNFTTransfer := vmInput.Arguments[tokenStartIndex+2]''', ['C01'], 'third and later NFTs of a multi-transfer are credited as fungible on the destination')
m('m40-setrole-anybody-on-self', B+'esdtRoles.go', '''	if !bytes.Equal(vmInput.CallerAddr, vmcommon.ESDTSCAddress) {
		return nil, ErrAddressIsNotESDTSystemSC
	}''', '''	if !bytes.Equal(vmInput.CallerAddr, vmcommon.ESDTSCAddress) && !(bytes.Equal(vmInput.CallerAddr, vmInput.RecipientAddr) && vmInput.CallType == vmcommon.ESDTTransferAndExecute) {
		return nil, ErrAddressIsNotESDTSystemSC
	}''', ['C03'], 'a contract can set roles on itself with call type transfer-and-execute')

def main():
    root = '/verif/seeded'
    tmp = tempfile.mkdtemp(prefix='mut-')
    try:
        for x in M:
            src = open('/repo/'+x['file']).read()
            if src.count(x['old']) != x['count']:
                print('SKIP', x['id'], 'old text found', src.count(x['old']), 'times'); continue
            new = src
            for (o2, n2) in x['more']:
                assert new.count(o2) == 1, x['id']
                new = new.replace(o2, n2)
            new = new.replace(x['old'], x['new'])
            a = os.path.join(tmp, 'a', x['file']); b = os.path.join(tmp, 'b', x['file'])
            os.makedirs(os.path.dirname(a), exist_ok=True); os.makedirs(os.path.dirname(b), exist_ok=True)
            open(a,'w').write(src); open(b,'w').write(new)
            d = subprocess.run(['diff','-u','--label','a/'+x['file'],'--label','b/'+x['file'],a,b],capture_output=True,text=True).stdout
            out = os.path.join(root, x['id']); os.makedirs(out, exist_ok=True)
            open(os.path.join(out,'patch.diff'),'w').write(d)
            meta_path = os.path.join(out,'meta.json')
            meta = {}
            if os.path.exists(meta_path):
                meta = json.load(open(meta_path))
            meta.update({'id': x['id'], 'breaks': x['props'], 'what': x['what'], 'origin': 'hand-written (DESIGN.md §7 list)'})
            json.dump(meta, open(meta_path,'w'), indent=1)
            os.remove(a); os.remove(b)
        print('wrote', len(M), 'mutants')
    finally:
        shutil.rmtree(tmp)
main()
