#!/bin/bash
# tools/sweep.sh <tier> <seeds...>  — every check at several seeds; prints only non-silent results
cd /verif
tier="$1"; shift
./run.sh build >/dev/null || { echo BUILD FAILED; exit 2; }
for seed in "$@"; do
  for id in C01 C02 C03 C04 C05 C06 C07 C08 C09 C10 C11 C12 C13 C14 C15 C16 C17 C18 C19 C20; do
    out=$(VERIF_SEED=$seed ./run.sh check $id $tier 2>&1 | grep -v DEBUG)
    rc=$?
    if echo "$out" | grep -q "^VIOLATION\|^INCONCLUSIVE\|BUILD FAILED\|KNOWN-FINDING"; then
      echo "== seed=$seed $id $tier NOT SILENT"; echo "$out" | head -12 | cut -c1-400
    fi
    echo "$out" | tail -1
  done
done
