#!/bin/bash
# tools/ingest_lane.sh <lane> <Cxx> <k>  — as ingest.sh, but in a lane (tools/lane.sh): targeted check first, all 20 if silent.
# (applies, suite passes with it, demo fails with it and passes without), stores it under
# /verif/seeded/<Cxx>-agent<k>/ and runs the quick checks against it (default: all 20).
set -u
export GOFLAGS=-mod=mod GOPROXY=off GOSUMDB=off GOTOOLCHAIN=local
LANE="$1"; P="$2"; K="$3"; shift 3
src=/tmp/wt-$P/out
id="$P-${ROUND:+$ROUND-}agent$K"
dst=/verif/seeded/$id
[ -f $src/mutant$K.diff ] || { echo "no $src/mutant$K.diff"; exit 2; }
scratch=/tmp/lane$LANE/repo
[ -d $scratch ] || { echo "no lane $LANE"; exit 2; }
cd $scratch && git checkout -q --detach $(git -C /repo rev-parse HEAD) && git checkout -q -- . && git clean -fdq
demo=$src/mutant${K}_demo_test.go
pkgdir=$(grep -m1 -io 'cop[a-z]* *\(it \)\?\(in\)\?to[^a-zA-Z./]*[a-zA-Z./]*' $demo | sed 's/.*to[^a-zA-Z./]*//' | tr -d '`' )
pkgline=$(grep -m1 '^package ' $demo | awk '{print $2}')
case "$pkgline" in
  vmcommon|vmcommon_test) pkgdir=. ;;
  builtInFunctions|builtInFunctions_test) pkgdir=builtInFunctions ;;
  parsers|parsers_test) pkgdir=parsers ;;
  data|data_test) pkgdir=data ;;
  esdt|esdt_test) pkgdir=data/esdt ;;
  container|container_test) pkgdir=container ;;
  atomic|atomic_test) pkgdir=atomic ;;
  check|check_test) pkgdir=check ;;
  txDataBuilder|txDataBuilder_test) pkgdir=txDataBuilder ;;
esac
echo "== $id demo package dir: $pkgdir"
cp $demo $scratch/$pkgdir/verif_demo_mutant_test.go
base_demo=$(cd $scratch && go test -vet=off -count=1 -run "TestVerifDemoMutant$K\$" ./$pkgdir/ 2>&1 | tail -3)
git apply $src/mutant$K.diff || { echo "patch does not apply"; exit 2; }
rm -f $scratch/$pkgdir/verif_demo_mutant_test.go
suite=$(go test -vet=off -count=1 ./... 2>&1 | grep -v "^ok\|no test files" | head -5)
cp $demo $scratch/$pkgdir/verif_demo_mutant_test.go
mut_demo=$(go test -vet=off -count=1 -run "TestVerifDemoMutant$K\$" ./$pkgdir/ 2>&1 | tail -3)
race_demo=""
if echo "$base_demo" | grep -q "^ok" && echo "$mut_demo" | grep -q "^ok"; then
  race_demo=$(go test -race -vet=off -count=3 -run "TestVerifDemoMutant$K\$" ./$pkgdir/ 2>&1 | tail -3)
fi
git checkout -q -- . ; git clean -fdq
echo "-- demo on unchanged tree: $(echo $base_demo | cut -c1-160)"
echo "-- suite with change (empty = passes): $suite"
echo "-- demo with change: $(echo $mut_demo | cut -c1-200)"
[ -n "$race_demo" ] && echo "-- demo with change under -race: $(echo $race_demo | cut -c1-200)"
mkdir -p $dst
cp $src/mutant$K.diff $dst/patch.diff
cp $demo $dst/demo_test.go
cp $src/mutant$K.md $dst/notes.md 2>/dev/null
checks="$*"; [ -z "$checks" ] && checks="$P"
res=$(/verif/tools/lane.sh mut $LANE $dst/patch.diff $checks 2>&1)
if ! echo "$res" | grep -q "violations=[1-9]"; then res=$(/verif/tools/lane.sh mut $LANE $dst/patch.diff C01 C02 C03 C04 C05 C06 C07 C08 C09 C10 C11 C12 C13 C14 C15 C16 C17 C18 C19 C20 2>&1); fi
echo "$res" | grep -v "violations=0 inconclusive=0"
python3 - "$id" "$P" "$pkgdir" "$base_demo" "$suite" "$mut_demo" "$race_demo" "$res" <<'PY'
import json,sys,os,re
id,P,pkgdir,base,suite,mut,race,res=sys.argv[1:9]
det={}
for l in res.splitlines():
    m=re.match(r'\S+ (C\d+) violations=(\d+) inconclusive=(\d+)\s*(.*)',l)
    if m: det[m.group(1)]={'violations':int(m.group(2)),'inconclusive':int(m.group(3)),'first_sig':m.group(4).strip()}
path='/verif/seeded/%s/meta.json'%id
meta={'id':id,'breaks':[P],'origin':'independent sub-agent given only the property text and its own scratch worktree',
 'demo_package_dir':pkgdir,
 'confirmed':{'demo_passes_on_unchanged_tree':base.strip().startswith('ok') or '\nok' in base,'existing_suite_passes_with_change':suite.strip()=='' ,
              'demo_fails_with_change':('FAIL' in mut) or ('FAIL' in race),'demo_needs_race_detector':('FAIL' not in mut) and ('FAIL' in race)},
 'ran':'tools/ingest_lane.sh: scratch worktree /tmp/lane<n>/repo (suite + demo with and without the change), then the patch applied to the lane copy of the repository and the quick tier of the targeted check (all 20 when that one is silent) run from the lane copy of /verif (tools/lane.sh)',
 'quick_results':det,'detected_by':sorted(k for k,v in det.items() if v['violations']>0)}
notes='/verif/seeded/%s/notes.md'%id
if os.path.exists(notes): meta['needs_to_manifest']=open(notes).read()[:1500]
json.dump(meta,open(path,'w'),indent=1)
print('detected_by:',meta['detected_by'],' confirmed:',meta['confirmed'])
PY
