#!/bin/bash
# tools/lane.sh setup <n> | sync <n> | mut <n> <patch.diff> <Cxx>... | drop <n>
# A lane is a scratch copy of the harness (/tmp/lane<n>/verif, module replace -> /tmp/lane<n>/repo, a
# detached worktree of /repo's HEAD). Seeded changes and refactors are applied to the LANE's repo
# copy and the lane's checks run against it, so several can be evaluated at once and /repo and
# /verif stay untouched meanwhile. Registered checks never use a lane; lanes are removed when done.
set -u
export GOFLAGS=-mod=mod GOPROXY=off GOSUMDB=off GOTOOLCHAIN=local
cmd="$1"; n="$2"; shift 2
L=/tmp/lane$n
sync_lane() {
  mkdir -p $L/verif
  rsync -a --delete --exclude .git --exclude seeded --exclude benign --exclude replays --exclude evidence --exclude bin /verif/ $L/verif/
  sed -i "s#=> /repo#=> $L/repo#" $L/verif/go.mod
  (cd $L/verif && VERIF_DIR=$L/verif ./run.sh build >/dev/null) || { echo "lane $n: BUILD FAILED"; return 2; }
}
case "$cmd" in
  setup)
    [ -d $L/repo ] || git -C /repo worktree add -q --detach $L/repo HEAD
    (cd $L/repo && git checkout -q --detach $(git -C /repo rev-parse HEAD) && git checkout -q -- . && git clean -fdq)
    sync_lane ;;
  sync) sync_lane ;;
  mut)
    patch="$(readlink -f "$1")"; shift
    cd $L/repo || exit 2
    git checkout -q -- . ; git clean -fdq
    git apply "$patch" || { echo "patch does not apply: $patch"; exit 2; }
    tier="${TIER:-quick}"
    for id in "$@"; do
      out=$(cd $L/verif && VERIF_DIR=$L/verif ./run.sh check "$id" "$tier" 2>&1 | grep -v DEBUG)
      code=$(echo "$out" | grep -c '^VIOLATION')
      inc=$(echo "$out" | grep -c '^INCONCLUSIVE\|BUILD FAILED')
      sig=$(echo "$out" | grep -m1 'sig=' | cut -c1-150)
      echo "$(basename $(dirname $patch)) $id violations=$code inconclusive=$inc $sig"
    done
    git checkout -q -- . ; git clean -fdq ;;
  drop)
    git -C /repo worktree remove --force $L/repo 2>/dev/null; rm -rf $L; git -C /repo worktree prune ;;
esac
