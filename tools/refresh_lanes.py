#!/usr/bin/env python3
"""tools/refresh_lanes.py [glob] [lanes]: as refresh_seeded.py, but spread over <lanes> scratch lanes
(tools/lane.sh, default 4) that are synced to the current /verif first; /repo is not touched.
Re-runs every seeded change against meta 'breaks' + 'also_run' (quick tier), rewrites
quick_results / detected_by."""
import json, os, re, subprocess, sys, glob, threading, queue, time
pat = sys.argv[1] if len(sys.argv) > 1 else '*'
L = int(sys.argv[2]) if len(sys.argv) > 2 else 4
FIRST = int(sys.argv[3]) if len(sys.argv) > 3 else 1
for n in range(FIRST, FIRST + L):
    subprocess.run(['/verif/tools/lane.sh', 'setup', str(n)], check=False)
q = queue.Queue()
for d in sorted(glob.glob('/verif/seeded/%s/' % pat)):
    if os.path.exists(d + 'meta.json') and os.path.exists(d + 'patch.diff'):
        # SKIP_MIN=<n>: leave out what was refreshed in the last n minutes (resume after an interruption)
        skip = float(os.environ.get('SKIP_MIN', '0'))
        if skip and (time.time() - os.path.getmtime(d + 'meta.json')) < skip * 60 and json.load(open(d + 'meta.json')).get('detected_by'):
            continue
        q.put(d)
rows, lock = [], threading.Lock()
def work(n):
    while True:
        try: d = q.get_nowait()
        except queue.Empty: return
        mp = d + 'meta.json'
        m = json.load(open(mp))
        checks = list(dict.fromkeys(m.get('breaks', []) + m.get('also_run', [])))
        if not checks: continue
        out = subprocess.run(['/verif/tools/lane.sh', 'mut', str(n), d + 'patch.diff'] + checks, capture_output=True, text=True)
        out = out.stdout + out.stderr
        if 'patch does not apply' in out:
            print(m['id'], 'PATCH DOES NOT APPLY', flush=True)
        det = {}
        for l in out.splitlines():
            mm = re.match(r'\S+ (C\d+) violations=(\d+) inconclusive=(\d+)\s*(.*)', l)
            if mm: det[mm.group(1)] = {'violations': int(mm.group(2)), 'inconclusive': int(mm.group(3)), 'first_sig': mm.group(4).strip()}
        m['quick_results'] = det
        m['detected_by'] = sorted(k for k, v in det.items() if v['violations'] > 0)
        json.dump(m, open(mp, 'w'), indent=1)
        with lock:
            rows.append((m['id'], m.get('breaks'), m['detected_by'], bool(m.get('not_claimed'))))
            if not m['detected_by']: print(m['id'], 'breaks', m.get('breaks'), 'detected_by', m['detected_by'], 'NOT-CLAIMED' if m.get('not_claimed') else 'MISSED', flush=True)
ts = [threading.Thread(target=work, args=(n,)) for n in range(FIRST, FIRST + L)]
[t.start() for t in ts]; [t.join() for t in ts]
missed = [r[0] for r in rows if not r[2] and not r[3]]
print('TOTAL', len(rows), 'DETECTED', sum(1 for r in rows if r[2]), 'MISSED', len(missed), missed, 'NOT-CLAIMED', [r[0] for r in rows if r[3]])
