#!/usr/bin/env python3
"""Writes /verif/MANIFEST.json from the table below (kept in one place so that it stays valid)."""
import json, subprocess, os

BASELINE_OFF = "cd /repo && GOFLAGS=-mod=mod GOPROXY=off GOSUMDB=off GOTOOLCHAIN=local go test -mod=mod -json -vet=off -count=1 -timeout 25m ./..."

CHECKS = {
 "C01": ("exploration", "§5 C01", "online monitor over leg events: exact-move effect oracle per transfer leg + shadow supply ledger (accounts + in-flight = ledger per storage key) + rejected-message/refund oracle",
         "Held on every explored execution: directed transfer matrix x refund matrix x aliasing cases x seeded random walks with adversarial calls, on the real factory-built containers with the production codec. Exploration is the right level: the property quantifies over unbounded histories and inputs; the monitors judge every leg of every history that is run."),
 "C02": ("exploration", "§5 C02", "online monitor: per-function balance-delta oracle on the committed diff + non-negativity scan of every written entry",
         "Held on every explored execution of every supply function over the prior-balance x amount grid and on every leg of random walks (all 23 functions)."),
 "C03": ("exploration", "§5 C03", "online monitor: success => authority held in shadow role/owner/DNS tables maintained from system-contract calls; role/freeze/pause/owner state may change only in authorised legs",
         "Held on all 2^7 role subsets per gated function (x other-token decoy), every system-only function from every other caller class, owner/ex-owner/DNS cases, and random histories of set/unset/hand-over."),
 "C04": ("exploration", "§5 C04", "online monitor: shadow freeze/pause tables; any committed change of a frozen entry / of an entry of a token paused on that shard is a violation unless exempt; unfreeze-restores oracle",
         "Held on the enforcement matrix (14 operations x 5 conditions x destinations x call types x attached call) incl. delivery and refund legs, and on random histories."),
 "C05": ("exploration", "§5 C05", "online monitor: SaveKeyValue post-state oracle + allowed-footprint oracle on the committed diff of every leg",
         "Held on the SaveKeyValue key grammar x callers x values and, for the frame condition, on every leg of the directed transfer matrix and random walks."),
 "C07": ("exploration", "§5 C07", "online monitor: shadow nonce registry (issued set, max issued, counter per holder, in-flight hand-over) compared with returned nonce, stored counter and role storage",
         "Held on seeded create/burn/transfer/hand-over histories (same/cross shard, late and duplicate delivery) and random walks."),
 "C08": ("exploration", "§5 C08", "online monitor: shadow metadata registry per holder; stored entries and cross-shard payloads decoded by the reference codec",
         "Held on generated metadata x routes (chains up to 6 hops over 1-3 shards, single/multi) with the production codec; wrong-hash credit seeded directly."),
 "C09": ("exploration", "§5 C09", "online monitor: any positive token delta at an account whose payability oracle answer is non-payable/error without an exemption is a violation; inadmissible destinations must be rejected",
         "Held on the full product of oracle answer x call type x caller x argument count x function/kinds x side x destination class (enumerated), plus random walks."),
 "C10": ("exploration", "§5 C10", "online monitor: emitted data vs expected encoding (reference codec payloads) vs library call-arguments parser; ESDT-transfer parser report vs ledger diff; continuation accepted by destination",
         "Held on every accepted leg of the directed matrices and random walks."),
 "C06": ("exploration", "§5 C06", "online monitor: GasRemaining + forwarded <= GasProvided on every committed leg; gas sweep around the measured charge: an under-funded call fails or leaves nothing",
         "Held on the scenario library x 14 gas values around own cost / measured charge x 3 schedules (incl. 2^32-1 costs) and on random-walk legs with adversarial gas."),
 "C11": ("exploration", "§5 C11", "panic / child-death monitor, result-shape monitor and exact per-call heap-allocation monitor (runtime.ReadMemStats) under RLIMIT_AS, one child process per batch; goroutine-dump monitor for a call that never returns (the only goroutine inside the library waits for a lock nobody holds)",
         "Held on grammar-based hostile argument lists for all 23 functions on evolved worlds, plus directed count-residue and aliasing cases."),
 "C12": ("exploration", "§5 C12", "panic monitor + parse∘build / build∘parse oracles against an independent tokenizer over an exhaustively enumerated string domain and generated argument lists; hostile inputs for the ESDT-transfer parser",
         "Exhaustive over all strings up to length 7 (quick) / 8 (thorough) over a 6-symbol alphabet; sampled beyond."),
 "C13": ("exploration", "§5 C13", "differential re-execution monitor: the same leg on a reused twin container (another goroutine, after an unrelated call) and on a fresh container must give byte-identical canonical output and world, also after the caller scribbled over the previous output; outputs handed out earlier re-canonicalised after later calls; sentinel-based input deep-compare; hook on the functions' byte-slice fields",
         "Held on every leg of random walks and on the scenario library under changed schedule/epoch configuration; thorough additionally under the race detector."),
 "C14": ("exploration", "§5 C14", "library codec vs independent reference codec (byte equality), size/determinism/round-trip oracles, decode-anything panic monitor",
         "Exhaustive over all amount buffers of length 0..2 (quick) / 0..3 (thorough) and all |v| < 2^16; generated structured values and mutated encodings otherwise."),
 "C15": ("exploration", "§5 C15", "online well-formedness scanner of every changed account after every leg (reference codec, key layouts, role duplicates, counter >= max issued) + full scan at quiescence",
         "Held on long random walks and on EVERY operation sequence up to depth 3 (quick) / 4 (thorough) over 36 templates in a small universe."),
 "C16": ("exploration", "§5 C16", "schedule-sensitivity oracle: per-field consumption deltas under 22 single-field perturbations applied through the real factory.GasScheduleChange + absolute price formula + rejected-schedule and change-sequence oracles",
         "Held on every sender-side scenario of the library (15 priced functions x sizes x shard relation x call types x attached call) except one recorded open finding (known_findings.json: asynchronous ClaimDeveloperRewards by a same-shard contract owner consumes all gas), which is printed as KNOWN-FINDING."),
 "C17": ("fault_enumeration", "§5 C17", "fault injection at the dependency choke point: every k-th injectable dependency call of every scenario fails once, with each of eight error values; oracle: nil output and non-nil error",
         "Complete enumeration of single fault points over the scenario library (every function x leg x variant); double faults and walk-leg faults in addition."),
 "C18": ("exploration", "§5 C18", "IsActive of all 23 functions vs reference after every notification of exhaustively enumerated epoch sequences; registry vs literal name list; per-name binding probes with the name-keyed effect monitors",
         "Exhaustive over activation epochs {0,1,2,3,2^31,2^32-1} x all epoch sequences up to length 4 (quick) / 5 (thorough) over a small domain, on 1-3 shard factory configurations."),
 "C19": ("exploration", "§5 C19", "Go race detector over a shared-container stress + porcupine linearizability checking of recorded histories against sequential models + single-schedule pricing, gas-bound and payability oracles on every concurrent execution",
         "Held on ~4800 recorded histories (quick) and ~1M concurrent built-in calls interleaved with ~5000 schedule changes per run, race detector silent; sampled schedules only."),
 "C20": ("exploration", "§5 C20", "algebraic-law oracles with independent reference implementations under a panic monitor",
         "Exhaustive over all 65536 byte pairs and lengths 0,1,3,4 over a 6-value alphabet; structured address patterns; generated output-account triples."),
}

NOT_YET = {}

def main():
    here = os.path.dirname(os.path.abspath(__file__))
    root = os.path.dirname(here)
    props = [json.loads(l) for l in open(os.path.join(root, "properties.jsonl"))]
    try:
        commits = subprocess.check_output(["git", "-C", "/repo", "log", "--format=%H %s"], text=True).strip().split("\n")
    except Exception:
        commits = []
    hook_commits = [c.split()[0] for c in commits if " verif hooks" in c or "verif:" in c]
    checks = []
    na = []
    for p in props:
        pid = p["id"]
        if pid in CHECKS:
            level, ref, tech, text = CHECKS[pid]
            checks.append({
                "property_id": pid,
                "quick_cmd": f"./run.sh check {pid} quick",
                "thorough_cmd": f"./run.sh check {pid} thorough",
                "evidence_file": f"/verif/evidence/{pid}.json",
                "replay_cmd_template": "./run.sh replay {path}",
                "engine": "vcheck",
                "level_claimed": {"category": level, "text": text, "design_ref": "DESIGN.md " + ref},
                "level_note": "Runtime monitoring of the real code of /repo (rebuilt from the working tree). Trusted base: the harness-implemented dependencies and the mini-node conventions T1-T9 of DESIGN.md §4, the reference codec (validated by C14), the Go runtime. Says nothing about executions that were not run.",
                "technique": "runtime monitoring: " + tech,
            })
        else:
            na.append({"property_id": pid, "reason": NOT_YET.get(pid, "check under construction in this session (runtime monitor designed in DESIGN.md §5, not yet registered)")})
    m = {
        "version": 1,
        "setup_cmd": "./run.sh build",
        "hooks": {
            "guard": "verif",
            "enable": "go build -tags verif (run.sh passes -tags verif to every build of the checker, which compiles /repo through a replace directive)",
            "baseline_off_cmd": BASELINE_OFF,
            "source_commits": hook_commits,
            "add_only": True,
        },
        "engines": [{"name": "vcheck", "path": "/verif/cmd/vcheck", "serves_properties": sorted(CHECKS.keys()),
                     "kind_free_text": "Go binary: mini-node driver over harness-implemented dependencies, online monitors per property, child process per batch; race build for C19"}],
        "checks": checks,
        "notes": "Every check: exit 0 held on everything explored; exit 1 + VIOLATION line; exit 2 + INCONCLUSIVE line (coverage floor not met, watchdog, workload setup failure, harness failure). VERIF_SEED selects the PRNG streams. known_findings.json lists the eight repaired defects (fixed: entries, suppress nothing) and one open finding of C16 (suppressed by a signature that contains the scenario name). seeded/ holds the 145 seeded changes used to validate the monitors (DESIGN.md section 7).",
        "not_applicable": na,
    }
    json.dump(m, open(os.path.join(root, "MANIFEST.json"), "w"), indent=1)
    print("wrote MANIFEST.json with", len(checks), "checks,", len(na), "not applicable")

main()
