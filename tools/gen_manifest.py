#!/usr/bin/env python3
"""Writes /verif/MANIFEST.json from the table below (kept in one place so that it stays valid)."""
import json, subprocess, os

BASELINE_OFF = "cd /repo && GOFLAGS=-mod=mod GOPROXY=off GOSUMDB=off GOTOOLCHAIN=local go test -mod=mod -json -vet=off -count=1 -timeout 25m ./..."

CHECKS = {
 "C01": ("exploration", "§5 C01", "online monitor over leg events: exact-move effect oracle per transfer leg + shadow supply ledger (accounts + in-flight = ledger per storage key) + rejected-message/refund oracle",
         "Held on every explored execution: directed transfer matrix x refund matrix x aliasing cases x seeded random walks with adversarial calls, on the real factory-built containers with the production codec. Exploration is the right level: the property quantifies over unbounded histories and inputs; the monitors judge every leg of every history that is run."),
 "C02": ("exploration", "§5 C02", "online monitor: per-function balance-delta oracle on the committed diff + non-negativity scan of every written entry",
         "Held on every explored execution of every supply function over the prior-balance x amount grid and on every leg of random walks (all 23 functions)."),
 "C03": ("exploration", "§5 C03", "online monitor: success => authority held in shadow role/owner/DNS tables maintained from system-contract calls; role/freeze/pause/owner state may change only in authorised legs",
         "Held on all 2^7 role subsets per gated function (x other-token decoy), every system-only function from every other caller class, owner/ex-owner/DNS cases, and random histories of set/unset/hand-over."),
 "C04": ("exploration", "§5 C04", "online monitor: shadow freeze/pause tables; any committed change of a frozen entry / of an entry of a token paused on that shard is a violation unless exempt; unfreeze-restores oracle",
         "Held on the enforcement matrix (14 operations x 5 conditions x destinations x call types x attached call) incl. delivery and refund legs, and on random histories."),
 "C05": ("exploration", "§5 C05", "online monitor: SaveKeyValue post-state oracle + allowed-footprint oracle on the committed diff of every leg",
         "Held on the SaveKeyValue key grammar x callers x values and, for the frame condition, on every leg of the directed transfer matrix and random walks."),
 "C07": ("exploration", "§5 C07", "online monitor: shadow nonce registry (issued set, max issued, counter per holder, in-flight hand-over) compared with returned nonce, stored counter and role storage",
         "Held on seeded create/burn/transfer/hand-over histories (same/cross shard, late and duplicate delivery) and random walks."),
 "C08": ("exploration", "§5 C08", "online monitor: shadow metadata registry per holder; stored entries and cross-shard payloads decoded by the reference codec",
         "Held on generated metadata x routes (chains up to 6 hops over 1-3 shards, single/multi) with the production codec; wrong-hash credit seeded directly."),
 "C09": ("exploration", "§5 C09", "online monitor: any positive token delta at an account whose payability oracle answer is non-payable/error without an exemption is a violation; inadmissible destinations must be rejected",
         "Held on the full product of oracle answer x call type x caller x argument count x function/kinds x side x destination class (enumerated), plus random walks."),
 "C10": ("exploration", "§5 C10", "online monitor: emitted data vs expected encoding (reference codec payloads) vs library call-arguments parser; ESDT-transfer parser report vs ledger diff; continuation accepted by destination",
         "Held on every accepted leg of the directed matrices and random walks."),
}

NOT_YET = {}

def main():
    here = os.path.dirname(os.path.abspath(__file__))
    root = os.path.dirname(here)
    props = [json.loads(l) for l in open(os.path.join(root, "properties.jsonl"))]
    try:
        commits = subprocess.check_output(["git", "-C", "/repo", "log", "--format=%H %s"], text=True).strip().split("\n")
    except Exception:
        commits = []
    hook_commits = [c.split()[0] for c in commits if " verif hooks" in c or "verif:" in c]
    checks = []
    na = []
    for p in props:
        pid = p["id"]
        if pid in CHECKS:
            level, ref, tech, text = CHECKS[pid]
            checks.append({
                "property_id": pid,
                "quick_cmd": f"./run.sh check {pid} quick",
                "thorough_cmd": f"./run.sh check {pid} thorough",
                "evidence_file": f"/verif/evidence/{pid}.json",
                "replay_cmd_template": "./run.sh replay {path}",
                "engine": "vcheck",
                "level_claimed": {"category": level, "text": text, "design_ref": "DESIGN.md " + ref},
                "level_note": "Runtime monitoring of the real code of /repo (rebuilt from the working tree). Trusted base: the harness-implemented dependencies and the mini-node conventions T1-T9 of DESIGN.md §4, the reference codec (validated by C14), the Go runtime. Says nothing about executions that were not run.",
                "technique": "runtime monitoring: " + tech,
            })
        else:
            na.append({"property_id": pid, "reason": NOT_YET.get(pid, "check under construction in this session (runtime monitor designed in DESIGN.md §5, not yet registered)")})
    m = {
        "version": 1,
        "setup_cmd": "./run.sh build",
        "hooks": {
            "guard": "verif",
            "enable": "go build -tags verif (run.sh passes -tags verif to every build of the checker, which compiles /repo through a replace directive)",
            "baseline_off_cmd": BASELINE_OFF,
            "source_commits": hook_commits,
            "add_only": True,
        },
        "engines": [{"name": "vcheck", "path": "/verif/cmd/vcheck", "serves_properties": sorted(CHECKS.keys()),
                     "kind_free_text": "Go binary: mini-node driver over harness-implemented dependencies, online monitors per property, child process per batch; race build for C19"}],
        "checks": checks,
        "notes": "Every check: exit 0 held on everything explored; exit 1 + VIOLATION line; exit 2 + INCONCLUSIVE line (coverage floor not met, watchdog, harness failure). VERIF_SEED selects the PRNG streams. known_findings.json lists fixed defects (suppress nothing).",
        "not_applicable": na,
    }
    json.dump(m, open(os.path.join(root, "MANIFEST.json"), "w"), indent=1)
    print("wrote MANIFEST.json with", len(checks), "checks,", len(na), "not applicable")

main()
