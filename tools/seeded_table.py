#!/usr/bin/env python3
import json, glob, os, re
rows=[]
for d in sorted(glob.glob('/verif/seeded/*/')):
    mp=os.path.join(d,'meta.json')
    if not os.path.exists(mp): continue
    m=json.load(open(mp))
    what=m.get('what','')
    if not what:
        n=os.path.join(d,'notes.md')
        if os.path.exists(n):
            for l in open(n):
                l=l.strip().lstrip('#').strip()
                if l:
                    what=l; break
    what=re.sub(r'\s+',' ',what).replace('|','/')
    if len(what)>150: what=what[:147]+'…'
    origin='sub-agent' if 'agent' in m['id'] else ('revert of fix' if m['id'].startswith('revert') else 'hand-written')
    rows.append((m['id'],origin,','.join(m.get('breaks',[])),','.join(m.get('detected_by',[])) or ('not claimed (see meta.json)' if m.get('not_claimed') else 'MISSED'),what))
print('| seeded change | origin | meant to break | detected by (quick tier) | what it is / needs |')
print('|---|---|---|---|---|')
for r in rows: print('| %s | %s | %s | %s | %s |'%r)
print()
print('%d seeded changes, %d detected by the quick tier of at least one check.'%(len(rows),sum(1 for r in rows if r[3]!='MISSED' and not r[3].startswith('not claimed'))))
