#!/opt/veriftools/pyvenv/bin/python
import json, jsonschema, glob, sys
jsonschema.validate(json.load(open('/verif/MANIFEST.json')), json.load(open('/root/.vp/MANIFEST.schema.json')))
es = json.load(open('/root/.vp/EVIDENCE.schema.json'))
bad = 0
for f in sorted(glob.glob('/verif/evidence/*.json')):
    try:
        jsonschema.validate(json.load(open(f)), es)
    except Exception as e:
        bad += 1
        print('INVALID', f, str(e)[:300])
print('manifest valid; evidence files checked:', len(glob.glob('/verif/evidence/*.json')), 'invalid:', bad)
sys.exit(1 if bad else 0)
