#!/bin/bash
# tools/benign.sh <Cxx> <k> — a behaviour-preserving refactor written by a sub-agent: confirm the suite
# passes with it (scratch worktree), then run ALL quick checks against it; every check must stay silent.
set -u
export GOFLAGS=-mod=mod GOPROXY=off GOSUMDB=off GOTOOLCHAIN=local
P="$1"; K="$2"
src=${SRCBASE:-/tmp/wt}-$P/out
id="$P-${ROUND:+$ROUND-}benign$K"
dst=/verif/benign/$id
[ -f $src/refactor$K.diff ] || { echo "no $src/refactor$K.diff"; exit 2; }
scratch=/tmp/wt-verify
[ -d $scratch ] || git -C /repo worktree add -q --detach $scratch HEAD
cd $scratch && git checkout -q --detach $(git -C /repo rev-parse HEAD) && git checkout -q -- . && git clean -fdq
git apply $src/refactor$K.diff || { echo "$id: patch does not apply"; exit 2; }
suite=$(go build ./... 2>&1 | head -3; go test -vet=off -count=1 ./... 2>&1 | grep -v "^ok\|no test files" | head -5)
git checkout -q -- . ; git clean -fdq
mkdir -p $dst; cp $src/refactor$K.diff $dst/patch.diff; cp $src/refactor$K.md $dst/notes.md 2>/dev/null
res=$(/verif/tools/mut.sh $dst/patch.diff C01 C02 C03 C04 C05 C06 C07 C08 C09 C10 C11 C12 C13 C14 C15 C16 C17 C18 C19 C20 2>&1)
loud=$(echo "$res" | grep -v "violations=0 inconclusive=0")
python3 - "$id" "$P" "$suite" "$res" <<'PY'
import json,sys,re
id,P,suite,res=sys.argv[1:5]
det={}
for l in res.splitlines():
    m=re.match(r'\S+ (C\d+) violations=(\d+) inconclusive=(\d+)\s*(.*)',l)
    if m and (int(m.group(2)) or int(m.group(3))): det[m.group(1)]={'violations':int(m.group(2)),'inconclusive':int(m.group(3)),'first_sig':m.group(4).strip()}
json.dump({'id':id,'written_for':P,'origin':'independent sub-agent asked for a behaviour-preserving refactor (property text + own worktree only)','suite_passes_with_change':suite.strip()=='','checks_not_silent':det,
 'ran':'tools/benign.sh: suite in scratch worktree, then git -C /repo apply; all 20 quick checks; git -C /repo checkout -- .'},open('/verif/benign/%s/meta.json'%id,'w'),indent=1)
PY
echo "== $id suite:[${suite}] not-silent:"; echo "$loud" | cut -c1-260
