#!/usr/bin/env python3
"""Re-runs every seeded change against the checks it is meant to break (meta.json 'breaks' + 'also_run')
with the quick tier and rewrites quick_results / detected_by in its meta.json. Uses tools/mut.sh
(git -C /repo apply ... ; run ; git -C /repo checkout -- .)."""
import json, os, re, subprocess, sys, glob
pat = sys.argv[1] if len(sys.argv) > 1 else '*'
rows = []
for d in sorted(glob.glob('/verif/seeded/%s/' % pat)):
    mp = os.path.join(d, 'meta.json')
    if not os.path.exists(mp) or not os.path.exists(os.path.join(d, 'patch.diff')):
        continue
    m = json.load(open(mp))
    checks = list(dict.fromkeys(m.get('breaks', []) + m.get('also_run', [])))
    if not checks:
        continue
    out = subprocess.run(['/verif/tools/mut.sh', os.path.join(d, 'patch.diff')] + checks, capture_output=True, text=True).stdout
    if 'patch does not apply' in out or 'repo dirty' in out:
        print(m['id'], 'PATCH DOES NOT APPLY / repo dirty:', out.strip()[:200], flush=True)
    det = {}
    for l in out.splitlines():
        mm = re.match(r'\S+ (C\d+) violations=(\d+) inconclusive=(\d+)\s*(.*)', l)
        if mm:
            det[mm.group(1)] = {'violations': int(mm.group(2)), 'inconclusive': int(mm.group(3)), 'first_sig': mm.group(4).strip()}
    m['quick_results'] = det
    m['detected_by'] = sorted(k for k, v in det.items() if v['violations'] > 0)
    m.setdefault('ran', 'tools/mut.sh: git -C /repo apply patch.diff; ./run.sh check <id> quick for every listed check; git -C /repo checkout -- .')
    json.dump(m, open(mp, 'w'), indent=1)
    rows.append((m['id'], m.get('breaks'), m['detected_by']))
    print(m['id'], 'breaks', m.get('breaks'), 'detected_by', m['detected_by'], flush=True)
notclaimed = [os.path.basename(os.path.dirname(d)) for d in glob.glob('/verif/seeded/%s/' % pat) if os.path.exists(d + 'meta.json') and json.load(open(d + 'meta.json')).get('not_claimed')]
missed = [r for r in rows if not r[2] and r[0] not in notclaimed]
print('TOTAL', len(rows), 'MISSED', len(missed), [r[0] for r in missed], 'NOT-CLAIMED', notclaimed)
