#!/bin/bash
# tools/mut.sh <patch.diff> <Cxx> [<Cxx>...]   apply a seeded change to /repo, run the quick checks, undo it.
# Prints one line per check: id, exit code, first VIOLATION signature.
set -u
patch="$(readlink -f "$1")"; shift
cd /repo || exit 2
if ! git diff --quiet; then echo "repo dirty, refusing"; exit 2; fi
git apply "$patch" || { echo "patch does not apply: $patch"; exit 2; }
trap 'git -C /repo checkout -- . ; git -C /repo clean -fdq' EXIT
tier="${TIER:-quick}"
for id in "$@"; do
  out=$(cd /verif && ./run.sh check "$id" "$tier" 2>&1 | grep -v DEBUG)
  code=$(echo "$out" | grep -c '^VIOLATION')
  inc=$(echo "$out" | grep -c '^INCONCLUSIVE\|BUILD FAILED')
  sig=$(echo "$out" | grep -m1 'sig=' | cut -c1-150)
  echo "$(basename $(dirname $patch)) $id violations=$code inconclusive=$inc $sig"
done
