#!/bin/bash
# tools/rebenign.sh [glob] — re-runs ALL quick checks against every stored behaviour-preserving refactor
# (benign/<id>/patch.diff); every check must stay silent. Prints one line per refactor.
set -u
export GOFLAGS=-mod=mod GOPROXY=off GOSUMDB=off GOTOOLCHAIN=local
cd /verif
bad=0; n=0
CHECKS="${CHECKS:-C01 C02 C03 C04 C05 C06 C07 C08 C09 C10 C11 C12 C13 C14 C15 C16 C17 C18 C19 C20}"
for d in benign/${1:-*}/; do
  id=$(basename $d); n=$((n+1))
  res=$(tools/mut.sh $d/patch.diff $CHECKS 2>&1)
  loud=$(echo "$res" | grep -v "violations=0 inconclusive=0")
  if [ -n "$loud" ]; then bad=$((bad+1)); echo "$id NOT SILENT:"; echo "$loud" | cut -c1-240; else echo "$id silent"; fi
done
echo "TOTAL $n NOT-SILENT $bad"
