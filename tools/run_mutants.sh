#!/bin/bash
# tools/run_mutants.sh [pattern]  — runs every seeded change against the checks it is meant to break
# (meta.json "breaks") with the quick tier; also checks that it compiles and passes the repo suite.
cd /verif
export GOFLAGS=-mod=mod GOPROXY=off GOSUMDB=off GOTOOLCHAIN=local
for d in seeded/${1:-*}/; do
  id=$(basename $d)
  [ -f $d/patch.diff ] || continue
  props=$(python3 -c "import json,sys; m=json.load(open('$d/meta.json')) if __import__('os').path.exists('$d/meta.json') else {}; print(' '.join(m.get('breaks',[])))")
  [ -z "$props" ] && continue
  if [ -n "${SUITE:-}" ]; then
    (cd /repo && git apply /verif/$d/patch.diff && { go build ./... 2>&1 | head -3; go test -vet=off -count=1 ./... 2>&1 | grep -v "^ok\|no test files" | head -5; }; git checkout -- . )
  fi
  tools/mut.sh $d/patch.diff $props
done
