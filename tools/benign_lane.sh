#!/bin/bash
# tools/benign_lane.sh <lane> <Cxx> <k> — as benign.sh, in a lane (tools/lane.sh): suite in the lane's
# repository copy, then ALL quick checks against the refactor; every check must stay silent.
set -u
export GOFLAGS=-mod=mod GOPROXY=off GOSUMDB=off GOTOOLCHAIN=local
LANE="$1"; P="$2"; K="$3"
src=${SRCBASE:-/tmp/wb}-$P/out
id="$P-${ROUND:+$ROUND-}benign$K"
dst=/verif/benign/$id
[ -f $src/refactor$K.diff ] || { echo "no $src/refactor$K.diff"; exit 2; }
scratch=/tmp/lane$LANE/repo
cd $scratch && git checkout -q -- . && git clean -fdq
git apply $src/refactor$K.diff || { echo "$id: patch does not apply"; exit 2; }
suite=$(go build ./... 2>&1 | head -3; go test -vet=off -count=1 ./... 2>&1 | grep -v "^ok\|no test files" | head -5)
git checkout -q -- . ; git clean -fdq
mkdir -p $dst; cp $src/refactor$K.diff $dst/patch.diff; cp $src/refactor$K.md $dst/notes.md 2>/dev/null
res=$(/verif/tools/lane.sh mut $LANE $dst/patch.diff C01 C02 C03 C04 C05 C06 C07 C08 C09 C10 C11 C12 C13 C14 C15 C16 C17 C18 C19 C20 2>&1)
loud=$(echo "$res" | grep -v "violations=0 inconclusive=0")
python3 - "$id" "$P" "$suite" "$res" <<'PY'
import json,sys,re
id,P,suite,res=sys.argv[1:5]
det={}
for l in res.splitlines():
    m=re.match(r'\S+ (C\d+) violations=(\d+) inconclusive=(\d+)\s*(.*)',l)
    if m and (int(m.group(2)) or int(m.group(3))): det[m.group(1)]={'violations':int(m.group(2)),'inconclusive':int(m.group(3)),'first_sig':m.group(4).strip()}
json.dump({'id':id,'written_for':P,'origin':'independent sub-agent asked for a behaviour-preserving refactor (property text + own worktree only)','suite_passes_with_change':suite.strip()=='','checks_not_silent':det,
 'ran':'tools/benign_lane.sh: suite in a lane copy of the repository, then the patch applied there and all 20 quick checks run from the lane copy of /verif (tools/lane.sh)'},open('/verif/benign/%s/meta.json'%id,'w'),indent=1)
PY
echo "== $id suite:[${suite}] not-silent:"; echo "$loud" | cut -c1-260
