#!/bin/bash
# run.sh build | check <Cxx> <quick|thorough> | replay <file>
# Rebuilds the checker from /repo's current working tree (the module replaces
# github.com/ElrondNetwork/elrond-vm-common with /repo) with the hooks enabled (-tags verif).
set -u
cd "$(dirname "$0")"
export GOFLAGS=-mod=mod GOPROXY=off GOSUMDB=off GOTOOLCHAIN=local GONOSUMCHECK=1 GOFLAGS="-mod=mod"
mkdir -p bin evidence replays
build() {
  go build -tags verif -o bin/vcheck ./cmd/vcheck 2>bin/build.err || { echo "BUILD FAILED (plain)"; cat bin/build.err; return 2; }
  if [ "${1:-}" = race ]; then
    go build -race -tags verif -o bin/vcheck-race ./cmd/vcheck 2>bin/build-race.err || { echo "BUILD FAILED (race)"; cat bin/build-race.err; return 2; }
  fi
}
needs_race() { case "$1" in C19) return 0;; C13) [ "$2" = thorough ];; *) return 1;; esac; }
case "${1:-}" in
  build) build race || exit 2 ;;
  check)
    id="$2"; tier="${3:-${VERIF_TIER:-quick}}"
    if needs_race "$id" "$tier"; then build race || exit 2; else build || exit 2; fi
    exec bin/vcheck check "$id" --tier "$tier" --seed "${VERIF_SEED:-1}" ;;
  replay) build race || exit 2; exec bin/vcheck replay "$2" ;;
  *) echo "usage: run.sh build | check <Cxx> <quick|thorough> | replay <file>"; exit 2 ;;
esac
