// vcheck: one binary for every check.
//
//	vcheck check <Cxx> [--tier quick|thorough] [--seed N]   parent: fans out batches, writes evidence
//	vcheck --worker <Cxx> --tier T --seed N --batch i --batches n   child: one batch
//	vcheck replay <file>                                     re-runs the batch a violation came from
package main

import (
	"encoding/json"
	"flag"
	"fmt"
	"os"
	"path/filepath"
	"strconv"

	"verif/internal/harness"
	_ "verif/internal/props"
)

func main() {
	if len(os.Args) < 2 {
		usage()
	}
	switch os.Args[1] {
	case "--worker":
		fs := flag.NewFlagSet("worker", flag.ExitOnError)
		tier := fs.String("tier", "quick", "")
		seed := fs.Int64("seed", 1, "")
		batch := fs.Int("batch", 0, "")
		batches := fs.Int("batches", 1, "")
		if len(os.Args) < 3 {
			usage()
		}
		fs.Parse(os.Args[3:])
		os.Exit(harness.RunWorker(os.Args[2], *tier, *seed, *batch, *batches, raceEnabled))
	case "check":
		fs := flag.NewFlagSet("check", flag.ExitOnError)
		tier := fs.String("tier", envOr("VERIF_TIER", "quick"), "")
		seed := fs.Int64("seed", envInt("VERIF_SEED", 1), "")
		only := fs.Int("only-batch", -1, "")
		if len(os.Args) < 3 {
			usage()
		}
		fs.Parse(os.Args[3:])
		self, _ := os.Executable()
		dir := filepath.Dir(self)
		os.Exit(harness.RunCheck(os.Args[2], *tier, *seed, filepath.Join(dir, "vcheck"), filepath.Join(dir, "vcheck-race"), *only))
	case "replay":
		if len(os.Args) < 3 {
			usage()
		}
		b, err := os.ReadFile(os.Args[2])
		if err != nil {
			fmt.Println(err)
			os.Exit(2)
		}
		var v harness.Violation
		if err := json.Unmarshal(b, &v); err != nil {
			fmt.Println(err)
			os.Exit(2)
		}
		self, _ := os.Executable()
		dir := filepath.Dir(self)
		fmt.Printf("replaying property=%s tier=%s seed=%d batch=%d/%d sig=%s\n", v.Property, v.Tier, v.Seed, v.Batch, v.Batches, v.Sig)
		os.Exit(harness.RunCheck(v.Property, v.Tier, v.Seed, filepath.Join(dir, "vcheck"), filepath.Join(dir, "vcheck-race"), v.Batch))
	case "list":
		for _, id := range harness.IDs() {
			fmt.Println(id)
		}
	default:
		usage()
	}
}

func usage() {
	fmt.Println("usage: vcheck check <Cxx> [--tier quick|thorough] [--seed N] | vcheck replay <file> | vcheck list")
	os.Exit(2)
}

func envOr(k, d string) string {
	if v := os.Getenv(k); v != "" {
		return v
	}
	return d
}

func envInt(k string, d int64) int64 {
	if v := os.Getenv(k); v != "" {
		if n, err := strconv.ParseInt(v, 10, 64); err == nil {
			return n
		}
	}
	return d
}
